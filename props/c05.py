"""C05 — failures and stop requests propagate through queues without hanging."""
from __future__ import annotations

import collections

from hypothesis import strategies as st

from vlib import dsched, targets
from vlib.core import Scenario, Violation, Inconclusive, check, crash
from props.c04 import setup, schedule_strategy, consumer_body

PROPERTY = 'C05'
LEVEL = 'fault_enumeration'
RULE = ('fault = (producer i raises at position p | external maybe_stop() / maybe_stop(exc) issued by a controller thread at a '
        'schedule-chosen point | a timeout with a producer or consumer that stalls on the virtual clock), crossed with the C04 '
        'queue configurations and generated schedules (deterministic scheduler); oracle: after a producer failure every consumer '
        'ends with that exception (never StopIteration, never blocked), nothing is delivered twice, every other producer returns '
        'and the failing one re-raises; after a stop request every thread finishes; with a timeout the starved side raises '
        'TimeoutError; no explored schedule deadlocks; async_queue_faults: an AsyncIteratorQueue fed by 1..3 async producers on a '
        'real event loop, one of which fails at a generated position while the others are parked inside their iterators: every '
        'consumer (get / get_batch / async_get) must observe the exception while the others are still parked; non-trivial = the fault happened while another thread was blocked on the '
        'queue (or, for timeouts, the timer fired); distinct = distinct canonical case JSON')
ASSUMPTIONS = [
    'same scheduler trusted base as C04 (shim semantics, preemption at synchronisation operations, virtual clock for timed waits)',
    'a stall is modelled as a long virtual sleep (1000 s) so that only the configured timeout can end the starvation',
]


def gen_failing(pid, n, fail_at, exc, stall_at=None):
  for i in range(n):
    if i == fail_at:
      raise targets.EXC[exc](f'producer {pid} fails at {i}')
    if i == stall_at:
      dsched.time_shim.sleep(1000.0)
    yield (pid, i)
  if fail_at is not None and fail_at >= n:
    raise targets.EXC[exc](f'producer {pid} fails at end')
  return f'ret{pid}'


class _CannotOpen:
  """An iterable that cannot be opened: iter() itself raises."""

  def __init__(self, exc, pid):
    self.exc, self.pid = exc, pid

  def __iter__(self):
    raise targets.EXC[self.exc](f'producer {self.pid} cannot be opened')


def run_case(case):
  from ml_metrics._src.utils import iter_utils  # pylint: disable=g-import-not-at-top
  prods, cons, fault = case['producers'], case['consumers'], case['fault']
  what = f'producers={prods} buffer={case["buffer"]} consumers={cons} fault={fault}'
  received = [[] for _ in cons]
  finals = [None] * len(cons)        # ('stop', args) | ('exc', exception)
  prod_out = [None] * len(prods)     # 'returned' | exception
  box = {'blocked_at_fault': 0}
  timeout = fault.get('timeout') if fault['kind'] == 'timeout' else None

  def main():
    if fault['kind'] == 'iter_raises' or (fault['kind'] == 'stop' and fault.get('unannounced')):
      # the number of producers is not announced: the queue counts the producers that register themselves
      q = iter_utils.IteratorQueue(case['buffer'], name='q')
    else:
      q = iter_utils.IteratorQueue(case['buffer'], max_enqueuer=len(prods), name='q', timeout=timeout)
    box['q'] = q
    box['registered'] = 0

    def after_all_registered(i, gen):
      # every healthy producer has registered with the queue before any of them produces (or finishes)
      box['registered'] += 1
      while box['registered'] < len(prods) - 1:
        dsched.time_shim.sleep(0.001)
      return (yield from gen)

    def producer(i):
      fa = fault['at'] if fault['kind'] == 'producer_raises' and fault['producer'] == i else None
      sa = fault['at'] if fault['kind'] == 'timeout' and fault['side'] == 'producer_stalls' and i == 0 else None
      try:
        if fault['kind'] == 'iter_raises':
          if fault['producer'] == i:
            q.enqueue_from_iterator(_CannotOpen(fault['exc'], i))
          else:
            q.enqueue_from_iterator(after_all_registered(i, gen_failing(i, prods[i], None, 'ValueError')))
        else:
          q.enqueue_from_iterator(gen_failing(i, prods[i], fa, fault.get('exc', 'ValueError'), sa))
        prod_out[i] = 'returned'
      except Exception as e:  # pylint: disable=broad-exception-caught
        prod_out[i] = e

    def consumer(i):
      c = cons[i]
      try:
        if fault['kind'] == 'timeout' and fault['side'] == 'consumer_stalls':
          for _ in range(fault['at']):
            received[i].append(q.get())
          dsched.time_shim.sleep(1000.0)
        args = consumer_body(q, c['mode'], c['n'], received[i], None)
        finals[i] = ('stop', args)
      except dsched._Killed:  # pylint: disable=protected-access
        raise
      except Exception as e:  # pylint: disable=broad-exception-caught
        finals[i] = ('exc', e)
        if fault.get('stop_after_error'):
          q.maybe_stop()         # what DequeueIterator / MultiplexIterator do when their consumer gives up after an error

    def controller():
      for _ in range(fault['after']):
        dsched.time_shim.sleep(0)
      s = dsched.S()
      box['blocked_at_fault'] = sum(1 for v in s.threads if not v.finished and v.blocked_on is not None and v.where == 'Condition.wait')
      try:
        q.maybe_stop(targets.EXC[fault['exc']]('external stop') if fault.get('exc') else None)
      except dsched._Killed:  # pylint: disable=protected-access
        raise
      except BaseException as e:  # pylint: disable=broad-exception-caught
        box['stop_raised'] = e
    ths = [dsched.Thread(target=producer, args=(i,), name=f'P{i}') for i in range(len(prods))]
    ths += [dsched.Thread(target=consumer, args=(i,), name=f'C{i}') for i in range(len(cons))]
    if fault['kind'] == 'stop':
      ths.append(dsched.Thread(target=controller, name='CTRL'))
    for t in ths:
      t.start()
    for t in ths:
      t.join()
  try:
    _, s = dsched.run(main, case['schedule'], max_steps=30000)
  except dsched.Deadlock as e:
    raise Violation('deadlock-after-fault', f'{what}: {e}') from e
  except dsched.StepBudget as e:
    raise Inconclusive(str(e)) from e
  produced = [(p, i) for p, n in enumerate(prods) for i in range(n)]
  flat = [x for r in received for x in r]
  cnt = collections.Counter(flat)
  check(all(v == 1 for v in cnt.values()), 'element-delivered-twice', f'{what}: received {received}')
  check(all(x in produced for x in flat), 'element-invented', f'{what}: received {received}')
  nt = False
  if fault['kind'] == 'producer_raises':
    i = fault['producer']
    will_fail = fault['at'] <= prods[i]
    if will_fail:
      exc_t = targets.EXC[fault['exc']]
      check(isinstance(prod_out[i], exc_t), 'failing-producer-does-not-reraise', f'{what}: producer {i} outcome {prod_out[i]!r}')
      for ci, f in enumerate(finals):
        check(f is not None, 'consumer-did-not-terminate', f'{what}: consumer {ci}')
        check(f[0] == 'exc' and isinstance(f[1], exc_t), 'consumer-misses-producer-failure',
              f'{what}: consumer {ci} ended with {f!r} instead of the producer\'s {exc_t.__name__}')
      for j, o in enumerate(prod_out):
        if j != i:
          check(o == 'returned', 'other-producer-did-not-return', f'{what}: producer {j} outcome {o!r}')
      nt = s.blocked_events.get('Condition.wait', 0) >= 1
    else:
      for ci, f in enumerate(finals):
        check(f is not None and f[0] == 'stop', 'consumer-did-not-terminate', f'{what}: consumer {ci} ended with {f!r}')
  elif fault['kind'] == 'iter_raises':
    i = fault['producer']
    check(isinstance(prod_out[i], targets.EXC[fault['exc']]), 'failing-producer-does-not-reraise', f'{what}: producer {i} outcome {prod_out[i]!r}')
    for j, o in enumerate(prod_out):
      if j != i:
        check(o == 'returned', 'other-producer-did-not-return', f'{what}: producer {j} outcome {o!r}')
    for ci, f in enumerate(finals):
      check(f is not None, 'consumer-did-not-terminate', f'{what}: consumer {ci}')
    if all(f[0] == 'stop' for f in finals):
      want = sorted(x for x in produced if x[0] != i)
      check(sorted(flat) == want, 'elements-lost', f'{what}: consumers ended normally with {received}, the healthy producers made {want}')
    nt = len(prods) >= 3
  elif fault['kind'] == 'stop':
    check('stop_raised' not in box, 'stop-request-raises', lambda: f'{what}: maybe_stop() raised {box["stop_raised"]!r}')
    for ci, f in enumerate(finals):
      check(f is not None, 'consumer-did-not-terminate', f'{what}: consumer {ci} still blocked after stop')
      if fault.get('exc'):
        check(f[0] == 'stop' or isinstance(f[1], targets.EXC[fault['exc']]), 'wrong-exception-after-stop', f'{what}: consumer {ci}: {f!r}')
      else:
        check(f[0] == 'stop', 'consumer-raises-after-clean-stop', f'{what}: consumer {ci} ended with {f!r}')
    for j, o in enumerate(prod_out):
      check(o == 'returned', 'producer-did-not-return-after-stop', f'{what}: producer {j} outcome {o!r}')
    nt = box['blocked_at_fault'] >= 1
  else:
    if fault['side'] == 'producer_stalls':
      stalls = fault['at'] < prods[0]
      for ci, f in enumerate(finals):
        check(f is not None, 'consumer-did-not-terminate', f'{what}: consumer {ci}')
        if stalls:
          check(f[0] == 'exc' and isinstance(f[1], TimeoutError), 'starved-get-does-not-time-out', f'{what}: consumer {ci} ended with {f!r}')
      nt = stalls
    else:
      # the only consumer stalls after `at` elements: a producer facing a full bounded buffer must time out
      total = sum(prods)
      starved = case['buffer'] > 0 and total > fault['at'] + case['buffer']
      if starved:
        check(any(isinstance(o, TimeoutError) for o in prod_out), 'starved-put-does-not-time-out', f'{what}: producer outcomes {prod_out!r}')
      check(all(o is not None for o in prod_out), 'producer-did-not-return', f'{what}: {prod_out!r}')
      nt = starved
  return {'nontrivial': nt, 'classes': [f'fault-{fault["kind"]}' + (f'-{fault.get("side")}' if fault['kind'] == 'timeout' else ''),
                                        f'buffer-{min(case["buffer"], 2)}', f'sched-{case["schedule"]["mode"]}'],
          'extra': {'scheduling_points': s.steps, 'preemptions': s.preemptions}}


# ------------------------------------------------------------------------------------------------ async producers
def run_async(case):
  """AsyncIteratorQueue fed by async producers on an event loop (real threads): one producer's iterator raises while the others
  are still alive (parked inside their iterators until the harness releases them). Every consumer must observe the exception
  *while the others are parked* (no indefinite wait), nothing is delivered twice, and after the release every producer ends."""
  import asyncio  # pylint: disable=g-import-not-at-top
  import threading  # pylint: disable=g-import-not-at-top
  import time  # pylint: disable=g-import-not-at-top
  from ml_metrics._src.utils import iter_utils  # pylint: disable=g-import-not-at-top
  prods, cons, exc_t = case['producers'], case['consumers'], targets.EXC[case['exc']]
  what = f'AsyncIteratorQueue(buffer={case["buffer"]}) producers={prods} consumers={cons} exc={case["exc"]}'
  loop = asyncio.new_event_loop()
  lt = threading.Thread(target=loop.run_forever, daemon=True)
  lt.start()
  q = iter_utils.AsyncIteratorQueue(case['buffer'], name='aq')
  registered = [0]
  holder = {}

  async def make_events():
    holder['barrier'], holder['gate'] = asyncio.Event(), asyncio.Event()
  asyncio.run_coroutine_threadsafe(make_events(), loop).result(5)

  async def agen(i, p):
    registered[0] += 1
    await holder['barrier'].wait()         # every producer is registered with the queue before any can finish
    for k in range(p['n'] + 1):
      if p.get('park_at') == k:
        await holder['gate'].wait()
      if p.get('fail_at') == k:
        raise exc_t(f'producer {i} fails at {k}')
      if k < p['n']:
        yield (i, k)
  futs = [asyncio.run_coroutine_threadsafe(q.async_enqueue_from_iterator(agen(i, p)), loop) for i, p in enumerate(prods)]
  t0 = time.time()
  while registered[0] < len(prods) and time.time() - t0 < 5:
    time.sleep(0.001)
  loop.call_soon_threadsafe(holder['barrier'].set)
  received = [[] for _ in cons]
  finals = [None] * len(cons)

  def consumer(ci, mode):
    try:
      while True:
        if mode == 'get':
          received[ci].append(q.get())
        elif mode == 'get_batch':
          received[ci].extend(q.get_batch())
        else:
          received[ci].append(asyncio.run_coroutine_threadsafe(q.async_get(), loop).result())
    except (StopIteration, StopAsyncIteration) as e:
      finals[ci] = ('stop', e.args)
    except Exception as e:  # pylint: disable=broad-exception-caught
      finals[ci] = ('exc', e)
  cths = [threading.Thread(target=consumer, args=(ci, m), daemon=True) for ci, m in enumerate(cons)]
  for t in cths:
    t.start()
  deadline = time.time() + 6.0
  for t in cths:
    t.join(max(0.0, deadline - time.time()))
  woken = [not t.is_alive() for t in cths]
  loop.call_soon_threadsafe(holder['gate'].set)      # the parked producers may go on now
  outcomes = []
  for f in futs:
    try:
      f.result(6)
      outcomes.append('returned')
    except Exception as e:  # pylint: disable=broad-exception-caught
      outcomes.append(e)
  for t in cths:
    t.join(6)
  alive = [t.is_alive() for t in cths]
  q.maybe_stop()
  loop.call_soon_threadsafe(loop.stop)
  lt.join(5)
  parked = any(p.get('park_at') is not None for p in prods)
  check(all(woken), 'consumer-not-woken-by-producer-failure',
        f'{what}: consumers {[i for i, w in enumerate(woken) if not w]} were still blocked 6 s after start although a producer had '
        f'failed' + (' (the other producers were parked, i.e. still alive)' if parked else '') + f'; finals={finals!r}')
  check(not any(alive), 'consumer-did-not-terminate', f'{what}: consumers still blocked at the end: {alive}')
  failing = [i for i, p in enumerate(prods) if p.get('fail_at') is not None][0]
  for ci, f in enumerate(finals):
    check(f is not None and f[0] == 'exc' and isinstance(f[1], exc_t), 'consumer-misses-producer-failure',
          f'{what}: consumer {ci} ended with {f!r} instead of the producer\'s {exc_t.__name__}')
  check(isinstance(outcomes[failing], exc_t), 'failing-producer-does-not-reraise', f'{what}: outcomes {outcomes!r}')
  for i, o in enumerate(outcomes):
    if i != failing:
      check(o == 'returned', 'other-producer-did-not-return', f'{what}: producer {i} outcome {o!r}')
  flat = [tuple(x) for r in received for x in r]
  produced = {(i, k) for i, p in enumerate(prods) for k in range(p['n'])}
  check(len(set(flat)) == len(flat), 'element-delivered-twice', f'{what}: received {received}')
  check(set(flat) <= produced, 'element-invented', f'{what}: received {received}')
  return {'nontrivial': parked and len(prods) >= 2, 'classes': ['async-producers', f'producers-{len(prods)}'] + (['others-parked'] if parked else [])}


def run_async_stop(case):
  """A stop request reaches an AsyncIteratorQueue (bounded, backed by an asyncio queue) while its async producers are parked on
  the full buffer: every producer must come back."""
  import asyncio  # pylint: disable=g-import-not-at-top
  import threading  # pylint: disable=g-import-not-at-top
  import time  # pylint: disable=g-import-not-at-top
  from ml_metrics._src.utils import iter_utils  # pylint: disable=g-import-not-at-top
  what = f'AsyncIteratorQueue(buffer={case["buffer"]}) producers={case["producers"]} take={case["take"]} then maybe_stop()'
  loop = asyncio.new_event_loop()
  lt = threading.Thread(target=loop.run_forever, daemon=True)
  lt.start()
  q = iter_utils.AsyncIteratorQueue(case['buffer'], name='aqs')

  async def agen(i, n):
    for k in range(n):
      yield (i, k)
  futs = [asyncio.run_coroutine_threadsafe(q.async_enqueue_from_iterator(agen(i, n)), loop) for i, n in enumerate(case['producers'])]
  got = []
  for _ in range(case['take']):
    try:
      got.append(q.get())
    except Exception:  # pylint: disable=broad-exception-caught
      break
  time.sleep(0.05)          # the remaining producers run into the full buffer
  q.maybe_stop()
  pending = []
  for i, f in enumerate(futs):
    try:
      f.result(5)
    except TimeoutError:
      pending.append(i)
    except Exception:  # pylint: disable=broad-exception-caught
      pass
  if pending:       # let the process go on: drain so that the parked producers can leave
    try:
      while True:
        q.get_nowait()
    except Exception:  # pylint: disable=broad-exception-caught
      pass
  loop.call_soon_threadsafe(loop.stop)
  lt.join(5)
  check(not pending, 'producer-did-not-return-after-stop', f'{what}: producers {pending} were still blocked 5 s after the stop request')
  total = sum(case['producers'])
  return {'nontrivial': total > case['buffer'] + case['take'], 'classes': ['async-stop', f'buffer-{case["buffer"]}']}


def strat_async_stop(tier):
  return st.builds(lambda b, p, t: {'buffer': b, 'producers': p, 'take': t}, st.integers(1, 3),
                   st.lists(st.integers(0, 6), min_size=1, max_size=3), st.integers(0, 3))


def strat_async(tier):
  @st.composite
  def s(draw):
    n = draw(st.integers(1, 3))
    failing = draw(st.integers(0, n - 1))
    prods = []
    for i in range(n):
      m = draw(st.integers(0, 3))
      if i == failing:
        prods.append({'n': m, 'fail_at': draw(st.integers(0, m))})
      else:
        prods.append({'n': m, 'park_at': draw(st.one_of(st.none(), st.integers(0, m)))})
    cons = draw(st.lists(st.sampled_from(['get', 'get', 'get_batch', 'async_get']), min_size=1, max_size=3))
    return {'producers': prods, 'consumers': cons, 'buffer': draw(st.sampled_from([0, 0, 1, 2])),
            'exc': draw(st.sampled_from(['ValueError', 'KeyError', 'RuntimeError']))}
  return s()


def strat(tier):
  @st.composite
  def s(draw):
    kind = draw(st.sampled_from(['producer_raises', 'producer_raises', 'stop', 'stop', 'timeout', 'producer_raises', 'stop', 'iter_raises']))
    # up to 5 producers: a failure has to wake *all* the others, however many are parked on the full queue
    prods = draw(st.one_of(st.lists(st.integers(0, 4), min_size=1, max_size=3), st.lists(st.integers(1, 3), min_size=4, max_size=5)))
    cons = draw(st.lists(st.builds(lambda m, n: {'mode': m, 'n': n}, st.sampled_from(['get', 'batch_nb', 'batch_b', 'get']), st.integers(1, 3)),
                         min_size=1, max_size=3))
    buffer = draw(st.sampled_from([0, 1, 1, 2, 3]))
    if kind == 'producer_raises':
      i = draw(st.integers(0, len(prods) - 1))
      fault = {'kind': kind, 'producer': i, 'at': draw(st.integers(0, prods[i])),
               'exc': draw(st.sampled_from(['ValueError', 'KeyError', 'RuntimeError', 'InjectedError', 'TimeoutError'])),
               'stop_after_error': draw(st.booleans())}
    elif kind == 'iter_raises':
      if len(prods) < 2:
        prods = prods + [draw(st.integers(0, 3))]
      fault = {'kind': kind, 'producer': draw(st.integers(0, len(prods) - 1)), 'exc': draw(st.sampled_from(['ValueError', 'KeyError', 'RuntimeError']))}
    elif kind == 'stop':
      fault = {'kind': kind, 'after': draw(st.integers(0, 6)), 'exc': draw(st.sampled_from([None, None, 'ValueError', 'RuntimeError'])),
               'unannounced': draw(st.sampled_from([False, False, True]))}
    else:
      side = draw(st.sampled_from(['producer_stalls', 'consumer_stalls']))
      fault = {'kind': kind, 'side': side, 'at': draw(st.integers(0, 3)), 'timeout': draw(st.sampled_from([0.5, 3.0, 0, 0.0]))}
      if side == 'consumer_stalls':
        cons = [{'mode': 'get', 'n': 1}]
        prods = [max(p, 1) for p in prods]
        fault['at'] = min(fault['at'], sum(prods) - 1)
      else:
        cons = [dict(c, mode='get') for c in cons]
    return {'producers': prods, 'buffer': buffer, 'consumers': cons, 'fault': fault, 'schedule': draw(schedule_strategy())}
  return s()


SCENARIOS = [
    Scenario('queue_faults', run_case, strategy=strat, setup=setup, budget={'quick': 6000, 'thorough': 120000},
             shards={'quick': 12, 'thorough': 16}),
    Scenario('async_queue_stop', run_async_stop, strategy=strat_async_stop, budget={'quick': 60, 'thorough': 600},
             shards={'quick': 6, 'thorough': 16}, nondeterministic=True),
    Scenario('async_queue_faults', run_async, strategy=strat_async, budget={'quick': 160, 'thorough': 2500},
             shards={'quick': 4, 'thorough': 16}, nondeterministic=True),
]
