"""C02 — pipeline aggregation and slicing equal a brute-force group-by."""
from __future__ import annotations

import collections
import collections.abc
import copy

from hypothesis import strategies as st
import numpy as np

from vlib import targets
from vlib.core import Scenario, Violation, check, crash

PROPERTY = 'C02'
LEVEL = 'exploration'
RULE = ('case = stream of 0..6 column-dict batches (features over 2..4 categories with values first appearing late, integer value '
        'columns, ragged per-example lists) x 1..3 stacked exact aggregates (input/output key shapes, disable_slicing) x slicer set '
        '(single feature, cross, fan-out slice_fn with duplicates/empties, restricted value set, intra-example masks with one or '
        'several masks, filter vs replace) x entry point; oracle = brute-force group-by over the concatenated rows; result dict '
        'must be equal as a mapping (no invented/dropped MetricKey), all entry points agree, dropping the slicers leaves the '
        'unsliced keys unchanged; non-trivial = >= 2 batches, >= 1 slicer and a slice value absent from some batch; distinct = '
        'distinct canonical case JSON'
        '; also: apply_mask directly over every documented (items, masks) shape pair (scenario mask_application); value sets as tuple/list/bare value, substring feature values, fractional fill values (sums in half units), batches of 17..40 rows with a high-cardinality feature')
ASSUMPTIONS = [
    'aggregates are exact (integer sums/counts, Counter) so the check is independent of floating-point batching effects (C01)',
    'restricted value sets only on single-feature slicers; slice values hashable; mask shapes equal the masked input shapes (documented)',
]


def _guard(fn, what):
  try:
    return fn()
  except Violation:
    raise
  except Exception as e:  # pylint: disable=broad-exception-caught
    raise crash(e, what) from e


def fan(x):
  return {0: [], 1: ['p'], 2: ['p', 'q'], 3: ['q', 'q']}[int(x) % 4]


class NestedSumAgg:
  """Exact aggregate over ragged per-example lists: (sum of elements over all inputs, number of elements of input 0)."""

  def create_state(self):
    return [0, 0]

  def update_state(self, state, *cols):
    state = list(state)
    for c in cols:
      for row in c:
        state[0] += int(sum(int(x) for x in row))
    state[1] += sum(len(row) for row in cols[0])
    return state

  def merge_states(self, states):
    out = [0, 0]
    for s in states:
      out[0] += s[0]
      out[1] += s[1]
    return out

  def get_result(self, state):
    return (state[0], state[1])


MASKS = {
    'even': lambda x: x % 2 == 0,
    'big': lambda x: x > 4,
    'all': lambda x: True,
}


def make_mask_fn(names, per_input, only_if_any):
  def mask_fn(*cols):
    for name in names:
      pred = MASKS[name]
      masks = tuple([[bool(pred(x)) for x in row] for row in c] for c in cols)
      if only_if_any and not any(any(r) for r in masks[0]):
        continue
      yield name, (masks if per_input else masks[:1])
  return mask_fn


def py(x):
  if isinstance(x, np.generic):
    return x.item()
  if isinstance(x, np.ndarray):
    return [py(v) for v in x.tolist()]
  if isinstance(x, (collections.Counter, dict)):
    return {py(k): py(v) for k, v in x.items()}
  if isinstance(x, (list, tuple)):
    return [py(v) for v in x]
  return x


def norm_result(res):
  out = {}
  if not isinstance(res, collections.abc.Mapping):
    return {'__not_a_mapping__': type(res).__name__}     # e.g. the empty placeholder when nothing was aggregated
  for k, v in dict(res).items():
    if hasattr(k, 'metrics') and hasattr(k, 'slice'):
      nk = (str(k.metrics), tuple(str(f) for f in k.slice.features), tuple(py(x) for x in k.slice.values))
    else:
      nk = str(k)
    check(nk not in out, 'duplicate-result-key', f'{nk}')
    out[nk] = py(v)
  return out


def build(case, with_slicers=True):
  from ml_metrics._src.aggregates import rolling_stats  # pylint: disable=g-import-not-at-top
  from ml_metrics._src.chainables import transform  # pylint: disable=g-import-not-at-top
  t = transform.TreeTransform.new()
  for i, a in enumerate(case['aggs']):
    fn = {'sum': targets.HalfSumAgg, 'counter': lambda: rolling_stats.Counter().as_agg_fn(), 'nested': NestedSumAgg}[a['kind']]()
    ik = a['in'][0] if len(a['in']) == 1 and a.get('in_single') else tuple(a['in'])
    ok = a['out'][0] if len(a['out']) == 1 else tuple(a['out'])
    kw = dict(fn=fn, input_keys=ik, output_keys=ok, disable_slicing=a.get('disable_slicing', False))
    t = t.aggregate(**kw) if i == 0 else t.add_aggregate(**kw)
  if with_slicers:
    for s in case['slicers']:
      rkw = {} if s.get('replace') is None else {'replace_mask_false_with': s['replace']}
      if s['kind'] == 'feature':
        t = t.add_slice(s['features'][0] if len(s['features']) == 1 and s.get('single') else tuple(s['features']), **rkw)
      elif s['kind'] == 'fan':
        t = t.add_slice(s['features'][0], slice_name=s['name'], slice_fn=fan, **rkw)
      elif s['kind'] == 'within':
        form = s.get('form', 'tuple')    # the value set as a tuple, a list, or (one value) the bare value itself
        allowed = s['allowed'][0] if form == 'bare' else (list(s['allowed']) if form == 'list' else tuple(s['allowed']))
        t = t.add_slice({s['features'][0]: allowed}, slice_name=s['name'], **rkw)
      elif s['kind'] == 'mask':
        kw = {}
        if s['replace'] is not None:
          kw['replace_mask_false_with'] = s['replace']
        t = t.add_slice(tuple(s['features']), slice_name=s['name'],
                        slice_mask_fn=make_mask_fn(s['masks'], s['per_input'], s['only_if_any']), **kw)
  return t


def to_batch(b):
  out = {}
  for k, v in b.items():
    out[k] = [list(r) for r in v] if k.startswith('r') else np.array(v)
  return out


def agg_value(a, rows):
  """Brute-force aggregate of one aggregate spec over a list of row dicts (already masked where applicable)."""
  if a['kind'] == 'sum':
    return [sum(int(round(float(r[c]) * 2)) for r in rows for c in a['in']), len(rows)]     # HalfSumAgg: units of one half
  if a['kind'] == 'counter':
    return dict(collections.Counter(r[a['in'][0]] for r in rows))
  if a['kind'] == 'nested':
    return [sum(int(x) for r in rows for c in a['in'] for x in r[c]), sum(len(r[a['in'][0]]) for r in rows)]
  raise ValueError(a)


def place(a, value, slice_key=None):
  """Result entries of an aggregate: one key per output key (tuple result spread), or the whole tuple under a single key."""
  outs = a['out']
  if a['kind'] == 'counter' or len(outs) == 1:
    vals = {outs[0]: value}
  else:
    vals = dict(zip(outs, value))
  if slice_key is None:
    return vals
  return {(k, slice_key[0], slice_key[1]): v for k, v in vals.items()}


def _slice_keys(s, r):
  if s['kind'] == 'feature':
    return [(tuple(s['features']), tuple(r[f] for f in s['features']))]
  if s['kind'] == 'fan':
    return [((s['name'],), (v,)) for v in dict.fromkeys(fan(r[s['features'][0]]))]
  return [((s['name'],), (r[s['features'][0]],))] if r[s['features'][0]] in s['allowed'] else []


def reference(case):
  rows = []
  for b in case['batches']:
    n = len(next(iter(b.values())))
    rows += [{k: v[i] for k, v in b.items()} for i in range(n)]
  want = {}
  for a in case['aggs']:
    want.update(place(a, agg_value(a, rows)))
    if a.get('disable_slicing'):
      continue
    for s in case['slicers']:
      groups = collections.OrderedDict()
      if s['kind'] == 'mask':
        # a mask slice exists iff some batch yielded it; members are the masked / replaced elements
        for name in s['masks']:
          pred = MASKS[name]
          yielded = False
          for b in case['batches']:
            first = b[s['features'][0]]
            if not s['only_if_any'] or any(pred(x) for row in first for x in row):
              yielded = True
          if not yielded:
            continue
          masked_rows = []
          for b in case['batches']:
            first = b[s['features'][0]]
            if s['only_if_any'] and not any(pred(x) for row in first for x in row):
              continue
            n = len(first)
            for i in range(n):
              r = {}
              for ci, c in enumerate(a['in']):
                # one mask for all inputs: computed from the slicer's first feature column; per input: from feature ci
                src = b[s['features'][ci if s['per_input'] else 0]][i]
                vals = b[c][i]
                if s['replace'] is None:
                  r[c] = [v for v, m in zip(vals, src) if pred(m)]
                else:
                  r[c] = [v if pred(m) else s['replace'] for v, m in zip(vals, src)]
              masked_rows.append(r)
          want.update(place(a, agg_value(a, masked_rows), ((s['name'],), (name,))))
        continue
      if s.get('replace') is not None:
        # replace instead of filter: in every batch where the slice value occurs, *all* rows of the batch take part, the
        # non-members with every input replaced by the given value
        per_slice = collections.OrderedDict()
        for b in case['batches']:
          n = len(next(iter(b.values())))
          brow = [{k: v[i] for k, v in b.items()} for i in range(n)]
          member = collections.OrderedDict()
          for i, r in enumerate(brow):
            for key in _slice_keys(s, r):
              member.setdefault(key, set()).add(i)
          for key, idx in member.items():
            for i, r in enumerate(brow):
              per_slice.setdefault(key, []).append(r if i in idx else {k: s['replace'] for k in r})
        for key, members in per_slice.items():
          want.update(place(a, agg_value(a, members), key))
        continue
      for r in rows:
        if s['kind'] == 'feature':
          vals = [tuple(r[f] for f in s['features'])]
          names = tuple(s['features'])
        elif s['kind'] == 'fan':
          vals = [(v,) for v in dict.fromkeys(fan(r[s['features'][0]]))]
          names = (s['name'],)
        else:
          vals = [(r[s['features'][0]],)] if r[s['features'][0]] in s['allowed'] else []
          names = (s['name'],)
        for v in vals:
          groups.setdefault((names, v), []).append(r)
      for key, members in groups.items():
        want.update(place(a, agg_value(a, members), key))
  return want


def _eq(a, b):
  if isinstance(a, dict) and isinstance(b, dict):
    return set(a) == set(b) and all(_eq(a[k], b[k]) for k in a)
  if isinstance(a, (list, tuple)) and isinstance(b, (list, tuple)):
    return len(a) == len(b) and all(_eq(x, y) for x, y in zip(a, b))
  return a == b and isinstance(a, bool) == isinstance(b, bool)


def compare(got, want, what):
  missing = [k for k in want if k not in got]
  extra = [k for k in got if k not in want]
  check(not missing, 'slice-or-metric-key-dropped', f'{what}: missing keys {missing[:4]} (got {sorted(map(str, got))[:12]})')
  check(not extra, 'slice-or-metric-key-invented', f'{what}: unexpected keys {extra[:4]}')
  for k in want:
    check(_eq(got[k], want[k]), 'aggregate-value-differs' + (':sliced' if isinstance(k, tuple) else ':unsliced'),
          f'{what}: {k}: got {got[k]!r}, brute force {want[k]!r}')


def run_case(case):
  from ml_metrics._src.chainables import transform  # pylint: disable=g-import-not-at-top
  what = f'aggs={case["aggs"]} slicers={case["slicers"]} batches={case["batches"]}'
  want = reference(case)
  batches = [to_batch(b) for b in case['batches']]
  t = _guard(lambda: build(case), f'building {what}')
  entry = case['entry']
  if entry == 'call_iterator':
    if not batches:
      res = None   # calling a runner with an empty iterator is not defined (mit.last); covered by iterate()
    else:
      res = _guard(lambda: t.make()(input_iterator=iter(copy.deepcopy(batches))), f'{what}: runner(input_iterator=...)')
  elif entry == 'iterate':
    it = _guard(lambda: t.make().iterate(copy.deepcopy(batches)), f'{what}: iterate')
    fwd = _guard(lambda: list(it), f'{what}: iterating')
    check(len(fwd) == len(batches), 'batches-not-forwarded', f'{what}: {len(fwd)} of {len(batches)} batches forwarded')
    res = _guard(lambda: it.agg_result, f'{what}: agg_result')
  elif entry == 'aggregate_mode':
    if not batches:
      res = None
    else:
      r = _guard(lambda: t.make(mode=transform.RunnerMode.AGGREGATE), f'{what}: make(AGGREGATE)')
      res = _guard(lambda: r(input_iterator=iter(copy.deepcopy(batches))), f'{what}: aggregate-mode runner')
  elif entry == 'state_api':
    r = t.make()
    state = _guard(r.create_state, f'{what}: create_state')
    for b in copy.deepcopy(batches):
      state = _guard(lambda state=state, b=b: r.update_state(state, b), f'{what}: update_state')
    res = _guard(lambda: r.get_result(state), f'{what}: get_result')
  elif entry == 'single_batch':
    res = _guard(lambda: t.make()(copy.deepcopy(batches[0])), f'{what}: runner(batch)') if len(batches) == 1 else None
  else:
    raise ValueError(entry)
  if res is not None:
    got = norm_result(res)
    compare(got, want, f'{what} via {entry}')
    # dropping the slicers never changes the unsliced result
    if case['slicers'] and batches:
      t0 = build(case, with_slicers=False)
      it0 = t0.make().iterate(copy.deepcopy(batches))
      list(it0)
      res0 = norm_result(it0.agg_result)
      unsliced = {k: v for k, v in got.items() if not isinstance(k, tuple)}
      check(_eq(res0, unsliced), 'slicers-change-unsliced-result', f'{what}: without slicers {res0!r}, with slicers {unsliced!r}')
  # non-triviality: a sliced key whose value is absent from at least one batch
  late = False
  for s in case['slicers']:
    if s['kind'] in ('feature', 'within') and len(case['batches']) >= 2:
      f = s['features'][0]
      vals = [set(b[f]) for b in case['batches']]
      late = late or any(v - w for v in vals for w in vals)
    if s['kind'] in ('fan', 'mask') and len(case['batches']) >= 2:
      late = True
  cl = [f'entry-{entry}'] + sorted({f'slicer-{s["kind"]}' for s in case['slicers']}) + [f'batches-{min(len(batches), 3)}']
  return {'nontrivial': res is not None and len(batches) >= 2 and bool(case['slicers']) and late, 'classes': cl}


# ------------------------------------------------------------------------------------------------ apply_mask, all documented shape pairs
def _mk_items(j):
  """JSON -> items tree: {'l': [...]} list, {'t': [...]} tuple, {'a': [...]} ndarray, {'d': [[k, sub]...]} dict, scalar."""
  if isinstance(j, dict):
    (tag, val), = j.items()
    if tag == 'l':
      return [_mk_items(v) for v in val]
    if tag == 't':
      return tuple(_mk_items(v) for v in val)
    if tag == 'a':
      return np.array(val)
    if tag == 'd':
      return {k: _mk_items(v) for k, v in val}
  return j


def _mk_mask(j):
  if isinstance(j, dict):
    (tag, val), = j.items()
    if tag == 'l':
      return [_mk_mask(v) for v in val]
    if tag == 't':
      return tuple(_mk_mask(v) for v in val)
    if tag == 'a':
      return np.array(val, dtype=bool)
    if tag == 'd':
      return {k: _mk_mask(v) for k, v in val}
  return j


_DROP = object()


def _ref_mask(items, mask, rep, replace):
  """Naive reading of the apply_mask docstring. Returns plain Python data (lists for every sequence) or _DROP."""
  if mask is True:
    return _plain(items)
  if mask is False:
    return rep if replace else _DROP
  if isinstance(mask, np.ndarray) and mask.dtype == bool and isinstance(items, dict):
    # an array mask over a dict: applied to every (array) leaf of the dict
    return {k: _ref_mask(v, mask, rep, replace) for k, v in items.items()}
  if isinstance(mask, dict):
    out = {}
    for k, m in mask.items():
      r = _ref_mask(items.get(k), m, rep, replace)
      if r is not _DROP:
        out[k] = r
    return out
  out = []
  for elem, m in zip(list(items), list(mask)):
    r = _ref_mask(elem, bool(m) if isinstance(m, (bool, np.bool_)) else m, rep, replace)
    if r is not _DROP:
      out.append(r)
  return out


def _plain(x):
  if isinstance(x, np.ndarray):
    return [_plain(v) for v in x.tolist()]
  if isinstance(x, (list, tuple)):
    return [_plain(v) for v in x]
  if isinstance(x, dict):
    return {k: _plain(v) for k, v in x.items()}
  if isinstance(x, np.generic):
    return x.item()
  return x


def run_apply_mask(case):
  from ml_metrics._src.chainables import tree  # pylint: disable=g-import-not-at-top
  items, mask = _mk_items(case['items']), _mk_mask(case['mask'])
  replace = case['replace'] is not None
  what = f'apply_mask({items!r}, masks={mask!r}' + (f', replace_false_with={case["replace"]!r})' if replace else ')')
  snap = copy.deepcopy(items)
  kw = {'replace_false_with': case['replace']} if replace else {}
  got = _guard(lambda: tree.apply_mask(items, masks=mask, **kw), what)
  want = _ref_mask(items, mask, case['replace'], replace)
  check(_plain(got) == want, 'mask-application-differs', f'{what} = {got!r}, the documented semantics give {want!r}')
  check(_plain(items) == _plain(snap), 'masked-input-mutated', f'{what}: the masked input is now {items!r}, was {snap!r}')
  # container kinds survive where elements are kept one by one
  if isinstance(items, tuple) and not isinstance(mask, np.ndarray) and mask is not True:
    check(isinstance(got, tuple), 'container-kind-changed', f'{what} returned {type(got).__name__} for a tuple')
  kind = next(iter(case['items'])) if isinstance(case['items'], dict) else 'scalar'
  mkind = next(iter(case['mask'])) if isinstance(case['mask'], dict) else 'scalar'
  return {'nontrivial': True, 'classes': [f'mask-items-{kind}', f'mask-kind-{mkind}'] + (['replace'] if replace else ['filter'])}


def strat_apply_mask(tier):
  vals = st.integers(0, 9)

  @st.composite
  def seq_pair(draw, depth):
    """(items, mask) for a sequence: every position gets True / False / (if nested) a sub-mask."""
    n = draw(st.integers(0, 4))
    tag = draw(st.sampled_from(['l', 'l', 't', 'a']))
    if tag == 'a':
      # array items: flat values with a list mask or a numpy boolean mask
      items = {'a': [draw(vals) for _ in range(n)]}
      bits = [draw(st.booleans()) for _ in range(n)]
      return items, ({'a': bits} if draw(st.booleans()) else {'l': bits})
    its, ms = [], []
    for _ in range(n):
      if depth > 0 and draw(st.integers(0, 2)) == 0:
        sub_i, sub_m = draw(seq_pair(depth - 1))
        whole = draw(st.sampled_from([None, None, True, False]))
        its.append(sub_i)
        ms.append(sub_m if whole is None else whole)
      else:
        its.append(draw(vals))
        ms.append(draw(st.booleans()))
    # a numpy boolean mask selects rows of a flat column (items convertible to an array); nested items take list / tuple masks
    flat = all(isinstance(m, bool) for m in ms) and all(not isinstance(i, dict) for i in its)
    mtag = 'a' if (flat and draw(st.integers(0, 3)) == 0) else draw(st.sampled_from(['l', 't']))
    return {tag: its}, {mtag: ms}

  @st.composite
  def s(draw):
    shape = draw(st.sampled_from(['seq', 'seq', 'dict_dict', 'array_over_dict', 'true']))
    if shape == 'seq':
      items, mask = draw(seq_pair(2))
    elif shape == 'true':
      items, mask = draw(seq_pair(1))[0], True
    elif shape == 'dict_dict':
      keys = draw(st.lists(st.sampled_from(['p', 'q', 'r']), min_size=1, max_size=3, unique=True))
      its, ms = [], []
      for k in keys:
        sub_i, sub_m = draw(seq_pair(1))
        its.append([k, sub_i])
        if draw(st.integers(0, 4)) > 0:      # keys missing from the mask are dropped
          ms.append([k, draw(st.sampled_from([sub_m, sub_m, True, False]))])
      items, mask = {'d': its}, {'d': ms}
    else:
      n = draw(st.integers(0, 4))
      keys = draw(st.lists(st.sampled_from(['p', 'q', 'r']), min_size=1, max_size=3, unique=True))
      items = {'d': [[k, {'a': [draw(vals) for _ in range(n)]}] for k in keys]}
      mask = {'a': [draw(st.booleans()) for _ in range(n)]}
    return {'items': items, 'mask': mask, 'replace': draw(st.sampled_from([None, None, 0, -1, 7]))}
  return s()


def strat(tier):
  maxb, maxn = (4, 5) if tier == 'quick' else (6, 8)

  @st.composite
  def s(draw):
    family = draw(st.sampled_from(['rows', 'rows', 'masks']))
    nb = draw(st.integers(0, maxb))
    # feature values that are substrings / prefixes of one another (incl. the empty string) and plain ones
    cats1 = draw(st.sampled_from([['a', 'b', 'c', 'd'], ['ab', 'a', '', 'b'], ['zz', 'z', 'c', '']]))[:draw(st.integers(2, 4))]
    batches = []
    wide = family == 'rows' and draw(st.integers(0, 7)) == 0      # a batch with more than 2**4 distinct slice values
    for bi in range(nb):
      n = draw(st.integers(1, maxn))
      if wide and bi == 0:
        n = draw(st.sampled_from([17, 18, 33, 40]))
      avail = cats1[:max(1, min(len(cats1), bi + draw(st.integers(1, 2))))]   # later batches introduce new values
      b = {'f1': [draw(st.sampled_from(avail)) for _ in range(n)], 'f2': [draw(st.integers(1, 2)) for _ in range(n)],
           'v': [draw(st.integers(0, 9)) for _ in range(n)], 'w': [draw(st.integers(0, 9)) for _ in range(n)]}
      # a high-cardinality feature: (nearly) every row of a batch has its own value
      b['f3'] = [(i * 7 + bi) % 41 for i in range(n)]
      if family == 'masks':
        lens = [draw(st.integers(0, 3)) for _ in range(n)]
        b['r1'] = [[draw(st.integers(0, 9)) for _ in range(l)] for l in lens]
        b['r2'] = [[draw(st.integers(0, 9)) for _ in range(l)] for l in lens]
      batches.append(b)
    aggs, used = [], set()
    # output keys in no particular order (argsort of drawn ranks: st.permutations does not decode under fuzz_one_input)
    ranks = draw(st.lists(st.integers(0, 5), min_size=6, max_size=6))
    names = iter([f'm{i + 1}' for i in sorted(range(6), key=lambda i: (ranks[i], i))])
    for _ in range(draw(st.integers(1, 3))):
      if family == 'masks' and not any(a['kind'] == 'nested' for a in aggs):
        kind = 'nested'
      else:
        kind = draw(st.sampled_from(['sum', 'counter'] if family == 'rows' else ['sum', 'counter', 'nested']))
      if kind == 'sum':
        cols = draw(st.sampled_from([['v'], ['w'], ['v', 'w']]))
        a = {'kind': 'sum', 'in': cols, 'in_single': len(cols) == 1 and draw(st.booleans()),
             'out': [next(names)] if draw(st.booleans()) else [next(names), next(names)]}
      elif kind == 'counter':
        a = {'kind': 'counter', 'in': [draw(st.sampled_from(['f1', 'f2', 'v']))], 'in_single': draw(st.booleans()), 'out': [next(names)]}
      else:
        cols = draw(st.sampled_from([['r1'], ['r1', 'r2']]))
        a = {'kind': 'nested', 'in': cols, 'in_single': len(cols) == 1 and draw(st.booleans()),
             'out': [next(names)] if draw(st.booleans()) else [next(names), next(names)]}
      if family == 'masks' and kind != 'nested':
        a['disable_slicing'] = True     # a mask shaped like the ragged column cannot be applied to a flat column
      elif draw(st.integers(0, 4)) == 0:
        a['disable_slicing'] = True
      aggs.append(a)
    slicers = []
    if family == 'rows':
      kinds = draw(st.lists(st.sampled_from(['feature1', 'feature2', 'cross', 'fan', 'within', 'feature3']), max_size=3, unique=True))
      if wide and 'feature3' not in kinds:
        kinds = kinds[:2] + ['feature3']
      if 'within' not in kinds and draw(st.integers(0, 4)) == 0:
        kinds = kinds[:2] + ['within']
      for k in kinds:
        # fill values incl. fractions, which an integer column cannot hold (the masked column is promoted)
        rep = draw(st.sampled_from([None, None, None, 0, 7, 0.5, 2.5]))
        if k == 'feature1':
          slicers.append({'kind': 'feature', 'features': ['f1'], 'single': draw(st.booleans()), 'replace': rep})
        elif k == 'feature2':
          slicers.append({'kind': 'feature', 'features': ['f2'], 'single': draw(st.booleans()), 'replace': rep})
        elif k == 'feature3':
          slicers.append({'kind': 'feature', 'features': ['f3'], 'single': draw(st.booleans()), 'replace': rep})
        elif k == 'cross':
          slicers.append({'kind': 'feature', 'features': ['f1', 'f2'], 'replace': rep})
        elif k == 'fan':
          slicers.append({'kind': 'fan', 'features': ['v'], 'name': 'fan', 'replace': rep})
        else:
          # value sets of one to three values, mostly values the column holds (and that have proper substrings in it)
          pool = sorted({c for c in cats1 if c} | {'a', 'zz', 'ab'})
          allowed = draw(st.lists(st.sampled_from(pool), min_size=1, max_size=draw(st.sampled_from([1, 1, 2, 3])), unique=True))
          slicers.append({'kind': 'within', 'features': ['f1'], 'name': 'within', 'replace': rep, 'allowed': allowed,
                          'form': draw(st.sampled_from(['tuple', 'list'] + (['bare', 'bare'] if len(allowed) == 1 else [])))})
      if any(sl.get('replace') is not None for sl in slicers):
        for a in aggs:
          if a['kind'] == 'counter':
            a['disable_slicing'] = True      # replacing entries of a string column by a number changes its dtype
    elif draw(st.integers(0, 5)) > 0:
      nested = [a for a in aggs if a['kind'] == 'nested' and not a.get('disable_slicing')]
      two = all(len(a['in']) == 2 for a in nested)
      per_input = two and draw(st.booleans())
      for name in ['mask', 'mask2'][:draw(st.sampled_from([1, 1, 2]))]:
        slicers.append({'kind': 'mask', 'features': ['r1', 'r2'] if per_input else ['r1'], 'name': name,
                        'masks': draw(st.lists(st.sampled_from(['even', 'big', 'all']), min_size=1, max_size=3, unique=True)),
                        'per_input': per_input, 'only_if_any': draw(st.booleans()),
                        'replace': draw(st.sampled_from([None, None, 0, 7]))})
    entry = draw(st.sampled_from(['call_iterator', 'iterate', 'aggregate_mode', 'state_api', 'single_batch']))
    if entry == 'single_batch' and len(batches) != 1:
      batches = batches[:1] or batches
      if not batches:
        entry = 'iterate'
    return {'batches': batches, 'aggs': aggs, 'slicers': slicers, 'entry': entry}
  return s()


SCENARIOS = [
    Scenario('mask_application', run_apply_mask, strategy=strat_apply_mask, budget={'quick': 2000, 'thorough': 40000},
             shards={'quick': 2, 'thorough': 8}),
    Scenario('group_by', run_case, strategy=strat, budget={'quick': 3000, 'thorough': 40000},
             shards={'quick': 12, 'thorough': 16},
             fuzz_runs={'thorough': 60000}, instrument=('ml_metrics._src.chainables.transform', 'ml_metrics._src.chainables.tree_fns', 'ml_metrics._src.chainables.tree', 'ml_metrics._src.utils.iter_utils')),
]
