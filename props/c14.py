"""C14 — remote evaluation is observationally the same as local evaluation."""
from __future__ import annotations

import itertools
import threading
import time as _time

from hypothesis import strategies as st

from vlib import targets
from vlib.core import Scenario, Violation, check, crash
from props import c17

PROPERTY = 'C14'
LEVEL = 'exploration'
RULE = ('history = sequence of operations against a real CourierServer reached through a real CourierClient over the in-process '
        'transport: evaluate a generated lazy expression tree (C17 grammar: nested calls, lazy args, attribute/item/method chains, '
        'cached and lazy results, raising callables), create a remote object and drive attribute / item / method chains on it, '
        'iterate a remote generator, drain a RemoteIteratorQueue with get / get_batch, request shutdown at a generated point or '
        'while a (then failing / succeeding) request is executing, '
        'optionally from 1..3 concurrent client threads with independent objects; oracle = the eager interpreter with explicit '
        'cache model of C17 (value or exception type+message must match; remote objects stay server-side: mutations through one '
        'chain are visible to the next; iteration yields exactly the elements in order and StopIteration with the return value; '
        'after a shutdown request every answer is the correct value or a retriable TimeoutError; a 60 s watchdog catches hangs); '
        'non-trivial = depth >= 2 with a remote-object hop, or an exception, or a shutdown mid-sequence; distinct = distinct '
        'canonical case JSON'
        '; also: the low-level call with return_exception / return_none / compress (eval_opts), server stopped and started again (restart), expressions raising their own TimeoutError, shutdown arriving while a gated request executes (both call paths), async_get_result, the same cached array-argument expression evaluated twice, floods of 255..300 remote objects; the same keywords in both orders both cached on the server; server-held objects made by a factory that returns a lazy object, changed through the remote reference and read back')
ASSUMPTIONS = [
    'the in-process fake transport reproduces courier\'s observable contract (futures, deadline code 4, handler exceptions as status errors)',
    'server and client share one process, so the expected values come from the C17 eager model, not from a second local evaluation',
    'real OS threads: the oracle is schedule independent; a hang must reproduce in a rerun to be reported',
]
_uid = itertools.count()


def setup():
  from ml_metrics._src.chainables import courier_server  # pylint: disable=g-import-not-at-top
  courier_server.CourierServer.__del__ = lambda self: None


def _watchdog(fn, what, timeout=60.0):
  box = {}

  def body():
    try:
      box['r'] = fn()
    except BaseException as e:  # pylint: disable=broad-exception-caught
      box['e'] = e
  th = threading.Thread(target=body, daemon=True)
  th.start()
  th.join(timeout)
  if th.is_alive():
    raise Violation('hang', f'{what}: still running after {timeout}s')
  if 'e' in box:
    raise box['e']
  return box.get('r')


def _client_ops(client, ops, model, what, state):
  """Runs one client's operation list; `state` carries the shared shutdown flag."""
  from ml_metrics._src.chainables import lazy_fns as lf  # pylint: disable=g-import-not-at-top
  from ml_metrics._src.utils import courier_utils, iter_utils  # pylint: disable=g-import-not-at-top
  handles = []     # (RemoteObject, model Counting)
  arr_memo = {}
  cid = state.setdefault('next_cid', 0)
  state['next_cid'] = cid + 1
  hops = exc_seen = 0
  for step, op in enumerate(ops):
    w = f'{what}: step {step} {op}'
    k = op[0]
    shutting = state['shutdown']

    def answer(fn):
      """-> ('value', v) | ('exc', type name, message) ; TimeoutError tolerated only while shutting down."""
      try:
        return ('value', fn())
      except TimeoutError as e:
        return ('timeout', str(e))
      except StopIteration as e:
        return ('stop', e.value)
      except (ValueError, KeyError, TypeError, RuntimeError) as e:
        return ('exc', type(e).__name__, str(e))
    if k in ('eval', 'eval_async'):
      e = op[1]
      saved = dict(targets.CALLS)
      try:
        want = ('value', model.ev(e))
      except (ValueError, KeyError, TimeoutError) as ex:
        want = ('exc', type(ex).__name__, str(ex))
      targets.CALLS.clear()
      targets.CALLS.update(saved)
      if isinstance(want[1], c17.Handle):
        continue
      if k == 'eval_async':
        import asyncio  # pylint: disable=g-import-not-at-top
        got = answer(lambda: asyncio.run(client.async_get_result(c17.build(e))))
      else:
        got = answer(lambda: client.get_result(c17.build(e)))
      if want[0] == 'exc' and want[1] == 'TimeoutError':
        # a TimeoutError raised by the expression itself is an application error like any other: same type and message
        exc_seen += 1
        if got == ('timeout', want[2]) or (got[0] == 'timeout' and (state['shutdown'] or shutting)):
          continue
        raise Violation('remote-exception-differs-from-local', f'{w}: remote {got!r}, local evaluation raises {want!r}')
      if got[0] == 'timeout' or (got[0] == 'exc' and got[1] == 'RuntimeError' and 'disconnected' in got[2]):
        check(state['shutdown'] or shutting, 'timeout-without-shutdown', f'{w}: {got}')
        continue
      if want[0] == 'value':
        check(got[0] == 'value' and c17._same_value(got[1], want[1]), 'remote-value-differs-from-local',  # pylint: disable=protected-access
              f'{w}: remote {got!r}, local evaluation gives {want[1]!r}')
      else:
        exc_seen += 1
        check(got[:3] == want, 'remote-exception-differs-from-local', f'{w}: remote {got!r}, local evaluation raises {want!r}')
    elif k == 'eval_opts':
      # the low-level call with the server's documented options: the server-side exception is returned (not raised), the
      # value may be dropped (return_none) and the answer compressed
      e, opts = op[1], op[2]
      saved = dict(targets.CALLS)
      try:
        want = ('value', model.ev(e))
      except (ValueError, KeyError, TimeoutError) as ex:
        want = ('exc', type(ex).__name__, str(ex))
      targets.CALLS.clear()
      targets.CALLS.update(saved)
      if isinstance(want[1], c17.Handle):
        continue
      kw = {'return_exception': True, 'return_none': bool(opts & 1), 'compress': bool(opts & 2)}

      def low_level():
        try:
          raw = client.call(c17.build(e), **kw).result()
        except Exception as ex:  # pylint: disable=broad-exception-caught
          # the transport's own failure (server gone / deadline): not an answer of the server
          raise TimeoutError(f'transport: {ex}') from ex
        return lf.pickler.loads(raw, compress=kw['compress'])
      got = answer(low_level)
      if got[0] in ('timeout', 'exc') or (got[0] == 'value' and isinstance(got[1], TimeoutError) and want[:2] != ('exc', 'TimeoutError')):
        check(state['shutdown'] or shutting, 'timeout-without-shutdown', f'{w}: {got}')
        continue
      if want[0] == 'exc':
        exc_seen += 1
        check(isinstance(got[1], Exception) and (type(got[1]).__name__, str(got[1])) == want[1:] or (
            (state['shutdown'] or shutting) and isinstance(got[1], TimeoutError)), 'remote-exception-differs-from-local',
              f'{w}: the server answered {got[1]!r} (options {kw}), local evaluation raises {want!r}')
      elif kw['return_none']:
        check(got[1] is None, 'return-none-returns-something', f'{w}: options {kw}: {got!r}')
      else:
        check(c17._same_value(got[1], want[1]), 'remote-value-differs-from-local',  # pylint: disable=protected-access
              f'{w}: options {kw}: remote {got!r}, local evaluation gives {want[1]!r}')
    elif k == 'eval_arr':
      # the same traced expression object (cached call with an array argument) is evaluated remotely more than once
      key = (tuple(op[1]), op[2])
      if key not in arr_memo:
        arr_memo[key] = c17.build({'k': 'call', 'fn': 'counted_arr_sum', 'args': [{'arr': list(op[1])}, {'c': op[2] + 100 * cid}], 'cache': True})
      got = answer(lambda: client.get_result(arr_memo[key]))
      if got[0] == 'timeout' or (got[0] == 'exc' and got[1] == 'RuntimeError' and 'disconnected' in got[2]):
        check(state['shutdown'] or shutting, 'timeout-without-shutdown', f'{w}: {got}')
        continue
      want = sum(op[1]) + op[2] + 100 * cid
      check(got == ('value', want), 'remote-value-differs-from-local', f'{w}: remote {got!r}, local evaluation gives {want!r}')
    elif k == 'remote_obj':
      base = op[1]
      # the factory hands back the instance or, for make_lazy_counting, a lazy object standing for it: either way the server keeps
      # *the instance*
      factory = getattr(targets, op[2] if len(op) > 2 else 'make_counting')
      got = answer(lambda: client.get_result(lf.trace(factory)(base, lazy_result_=True)))
      if got[0] != 'value':
        check(state['shutdown'] and got[0] == 'timeout', 'remote-object-not-created', f'{w}: {got}')
        continue
      check(isinstance(got[1], courier_utils.RemoteObject), 'lazy-result-not-a-remote-object', f'{w}: got {got[1]!r}')
      handles.append((got[1], targets.Counting(base)))
    elif k == 'flood_remote':
      # many more server-held objects are created (more than 2**8) while the handles obtained so far stay in use
      for j in range(op[1]):
        got = answer(lambda: client.get_result(lf.trace(targets.make_counting)(1000 + j, lazy_result_=True)))
        if got[0] != 'value':
          check(state['shutdown'] and got[0] == 'timeout', 'remote-object-not-created', f'{w}: {got}')
          break
    elif k in ('ro_call', 'ro_attr', 'ro_item', 'ro_ocall'):
      if not handles:
        continue
      ro, mo = handles[op[1] % len(handles)]
      hops += 1
      if k == 'ro_call':
        got, want = answer(lambda: ro.bump(op[2]).result_()), None
        if got[0] == 'value':
          want = mo.bump(op[2])
      elif k == 'ro_attr':
        got, want = answer(lambda: getattr(ro, op[2]).result_()), getattr(mo, op[2])
      elif k == 'ro_item':
        got = answer(lambda: ro[op[2]].result_())
        try:
          want = mo[op[2]]
        except KeyError as ex:
          if got[0] in ('timeout',) or (got[0] == 'exc' and got[1] == 'RuntimeError'):
            check(state['shutdown'], 'timeout-without-shutdown', f'{w}: {got}')
            continue
          check(got == ('exc', 'KeyError', str(ex)), 'remote-exception-differs-from-local', f'{w}: remote {got!r}, local object raises KeyError({ex.args[0]!r})')
          continue
      else:
        got, want = answer(lambda: ro(op[2]).result_()), mo(op[2])
      if got[0] == 'timeout' or (got[0] == 'exc' and got[1] == 'RuntimeError'):
        check(state['shutdown'], 'timeout-without-shutdown', f'{w}: {got}')
        continue
      check(got == ('value', want), 'remote-object-chain-differs', f'{w}: remote {got!r}, local object gives {want!r} '
            '(the object must stay on the server and keep its state between calls)')
    elif k == 'iter':
      n, fail_at = op[1], op[2]
      ret = op[3] if len(op) > 3 else 'R'
      got = answer(lambda: client.get_result(lf.trace(targets.gen_range)(n, fail_at, ret, 'T', lazy_result_=True)))
      if got[0] != 'value':
        check(state['shutdown'], 'remote-iterator-not-created', f'{w}: {got}')
        continue
      it_a = answer(lambda: iter(got[1]))
      if it_a[0] != 'value':
        check(state['shutdown'] and it_a[0] in ('timeout', 'exc'), 'remote-iterator-not-created', f'{w}: {it_a}')
        continue
      it = it_a[1]
      items, end = [], None
      for _ in range(n + 3):
        a = answer(lambda: next(it))
        if a[0] == 'value':
          items.append(list(a[1]))
        else:
          end = a
          break
      if end and end[0] == 'timeout':
        check(state['shutdown'], 'timeout-without-shutdown', f'{w}: {end}')
        continue
      upto = n if fail_at is None or fail_at >= n else fail_at
      check(items == [['T', i] for i in range(upto)], 'remote-iteration-differs', f'{w}: got {items}')
      if fail_at is not None and fail_at < n:
        exc_seen += 1
        check(end is not None and end[:3] == ('exc', 'KeyError', str(KeyError(f'fail at {fail_at}'))), 'remote-iteration-wrong-end',
              f'{w}: ended with {end!r}, the generator raises KeyError("fail at {fail_at}")')
      else:
        check(end == ('stop', ret) and type(end[1]) is type(ret), 'remote-iteration-wrong-end', f'{w}: ended with {end!r}, want StopIteration({ret!r})')
        again = answer(lambda: next(it))
        check(again[0] in ('stop', 'timeout'), 'exhaustion-not-stable', f'{w}: next() after exhaustion gave {again!r}')
    elif k == 'queue':
      n, mode = op[1], op[2]
      q = iter_utils.IteratorQueue(0, name=f'q{next(_uid)}')
      th = threading.Thread(target=q.enqueue_from_iterator, args=(targets.gen_range(n, None, 'QR', 'Q'),), daemon=True)
      th.start()
      rq = courier_utils.RemoteIteratorQueue.new(q, server_addr=client)
      items, end = [], None
      for _ in range(n + 3):
        a = answer(rq.get if mode == 'get' else rq.get_batch)
        if a[0] == 'value':
          items.extend([list(x) for x in (a[1] if mode != 'get' else [a[1]])])
        else:
          end = a
          break
      th.join(10)
      if end and end[0] == 'timeout':
        check(state['shutdown'], 'timeout-without-shutdown', f'{w}: {end}')
        q.maybe_stop()
        continue
      check(items == [['Q', i] for i in range(n)], 'remote-queue-differs', f'{w}: got {items}')
      check(end is not None and end[0] == 'stop', 'remote-queue-wrong-end', f'{w}: ended with {end!r}')
    elif k == 'shutdown':
      state['shutdown'] = True
      state['server']._request_shutdown()  # pylint: disable=protected-access
    elif k == 'restart':
      # the server object is stopped and started again: its second life evaluates like its first
      th = state['server'].stop()
      th.join(20)
      check(not th.is_alive(), 'hang', f'{w}: the server thread did not end within 20 s of stop()')
      state['server'].start()
      courier_utils.worker_registry().register(state['server'].address, _time.time())
      state['shutdown'] = False
    elif k == 'inflight_shutdown':
      # the shutdown request arrives while a request is executing on the server; that request then fails (or succeeds):
      # the harness owns the order through a gate inside the evaluated function
      kind, msg = op[1], op[2]
      gate = f'g{next(_uid)}'
      started, release = threading.Event(), threading.Event()
      targets.GATES[gate] = (started, release)
      box = {}
      raw = len(op) > 3 and op[3] == 'raw'

      def request():
        lazy = lf.trace(targets.gated_raise)(gate, kind, msg)
        if not raw:
          return client.get_result(lazy)
        # the way pool tasks are submitted: the handler raises through the transport instead of returning the exception
        try:
          return lf.pickler.loads(client.call(lazy).result())
        except Exception as e:  # pylint: disable=broad-exception-caught
          if 'TimeoutError' in str(e) or getattr(e, 'code', 0) == 4:
            raise TimeoutError(str(e)) from e
          raise RuntimeError(str(e)) from e
      th = threading.Thread(target=lambda: box.update(a=answer(request)), daemon=True)
      th.start()
      ok = started.wait(20)
      state['shutdown'] = True
      state['server']._request_shutdown()  # pylint: disable=protected-access
      release.set()
      th.join(30)
      targets.GATES.pop(gate, None)
      check(ok and not th.is_alive(), 'hang', f'{w}: the in-flight request never {"started" if not ok else "returned"}')
      got = box['a']
      if kind == 'value':
        check(got == ('value', msg) or got[0] == 'timeout', 'remote-value-differs-from-local', f'{w}: in-flight request answered {got!r}')
      else:
        exc_seen += 1
        check(got[0] == 'timeout', 'failure-during-shutdown-not-retriable',
              f'{w}: the request was executing when the shutdown was requested and then failed with {kind}({msg!r}); the server '
              f'answered {got!r}, a server that is shutting down must answer with the retriable TimeoutError')
  return hops, exc_seen


def run_case(case):
  import courier  # pylint: disable=g-import-not-at-top
  from ml_metrics._src.chainables import courier_server, lazy_fns as lf  # pylint: disable=g-import-not-at-top
  from ml_metrics._src.utils import courier_utils  # pylint: disable=g-import-not-at-top
  courier.reset()
  lf.clear_cache()
  lf.clear_object()
  targets.reset_calls()
  name = f'c14srv{next(_uid)}'
  server = courier_server.CourierServer(name)
  server.start()
  courier_utils.worker_registry().register(name, _time.time())
  what = f'clients={case["clients"]}'
  state = {'shutdown': False, 'server': server}
  results, errors = [], []

  def run_all():
    def one(i, ops):
      try:
        client = courier_utils.CourierClient(name, call_timeout=10)
        # cached sub-expressions are shared server-side state: concurrent clients get disjoint constants via their index
        results.append(_client_ops(client, ops, c17.Model(), f'{what} client {i}', state))
      except BaseException as e:  # pylint: disable=broad-exception-caught
        errors.append(e)
    ths = [threading.Thread(target=one, args=(i, ops), daemon=True) for i, ops in enumerate(case['clients'])]
    for t in ths:
      t.start()
    for t in ths:
      t.join()
  try:
    _watchdog(run_all, what)
  finally:
    server._request_shutdown()  # pylint: disable=protected-access
  for e in errors:
    if isinstance(e, Violation):
      raise e
    raise crash(e, what)
  hops = sum(r[0] for r in results)
  excs = sum(r[1] for r in results)
  shut = any(op[0] in ('shutdown', 'inflight_shutdown', 'restart') for ops in case['clients'] for op in ops)
  return {'nontrivial': hops >= 1 or excs >= 1 or shut, 'classes': [f'clients-{len(case["clients"])}'] + (['shutdown'] if shut else []) + (
      ['remote-object-hop'] if hops else []) + (['exception'] if excs else [])}


def strat(tier):
  maxops = 8 if tier == 'quick' else 16

  @st.composite
  def s(draw):
    nclients = draw(st.sampled_from([1, 1, 2, 3]))
    clients = []
    for ci in range(nclients):
      # with several clients, cached expressions would be shared server state: disable caching flags there
      raising = st.one_of(c17._raising(stop=False), st.sampled_from(['lock not acquired', 'x y']).map(  # pylint: disable=protected-access
          lambda m: {'k': 'call', 'fn': 'raise_timeout_error', 'args': [{'c': m}]}))
      expr = st.one_of(c17._int(3), c17._list(2), raising.map(lambda r: {'k': 'call', 'fn': 'counted_add', 'args': [{'c': 1}, r]}), raising)  # pylint: disable=protected-access
      op = st.one_of(
          st.tuples(st.just('eval'), expr).map(list), st.tuples(st.just('eval'), expr).map(list),
          st.tuples(st.just('eval_async'), expr).map(list),
          st.tuples(st.just('eval_opts'), expr, st.integers(0, 3)).map(list),
          st.tuples(st.just('remote_obj'), st.integers(0, 5), st.sampled_from(['make_counting', 'make_counting', 'make_lazy_counting'])).map(list),
          st.tuples(st.just('eval_arr'), st.sampled_from([[1, 2, 3], [4, 5]]), st.integers(0, 1)).map(list),
          st.tuples(st.just('ro_call'), st.integers(0, 3), st.integers(1, 3)).map(list),
          st.tuples(st.just('ro_attr'), st.integers(0, 3), st.sampled_from(['hits', 'base'])).map(list),
          st.tuples(st.just('ro_item'), st.integers(0, 3), st.just('k')).map(list),
          st.tuples(st.just('ro_ocall'), st.integers(0, 3), st.integers(0, 5)).map(list),
          st.tuples(st.just('iter'), st.integers(0, 4), st.one_of(st.none(), st.integers(0, 4)), st.sampled_from(['R', 7, None, 2.5])).map(list),
          st.tuples(st.just('ro_item'), st.integers(0, 3), st.sampled_from(['missing', 'zz'])).map(list),
          st.tuples(st.just('queue'), st.integers(0, 4), st.sampled_from(['get', 'get_batch'])).map(list))
      ops = draw(st.lists(op, min_size=1, max_size=maxops))
      if nclients > 1:
        ops = [_strip_cache(o) for o in ops]
      clients.append(ops)
    if nclients == 1 and draw(st.integers(0, 19)) == 0:
      ops0 = clients[0]
      ops0[:0] = [['remote_obj', 2], ['remote_obj', 3]]
      ops0.insert(draw(st.integers(2, len(ops0))), ['flood_remote', draw(st.sampled_from([255, 256, 257, 300]))])
      ops0 += [['ro_attr', 0, 'base'], ['ro_attr', 1, 'base'], ['ro_call', 0, 1]]
    if nclients == 1 and draw(st.integers(0, 5)) == 0:
      # the same keyword arguments in both orders, both cached on the server: two different expressions
      va, vb = draw(st.integers(0, 5)), draw(st.integers(0, 5))
      e1 = {'k': 'call', 'fn': 'kw_names', 'args': [], 'kwargs': [['a', {'c': va}], ['b', {'c': vb}]], 'cache': True}
      e2 = {'k': 'call', 'fn': 'kw_names', 'args': [], 'kwargs': [['b', {'c': vb}], ['a', {'c': va}]], 'cache': True}
      pos = draw(st.integers(0, len(clients[0])))
      clients[0][pos:pos] = [['eval', e1], ['eval', e2], ['eval', e1]]
    if nclients == 1 and draw(st.integers(0, 5)) == 0:
      # a server-held object made by a factory that returns a lazy object, changed twice through its remote reference, then read
      clients[0] += [['remote_obj', draw(st.integers(0, 5)), 'make_lazy_counting'], ['ro_call', -1, 1], ['ro_call', -1, 2], ['ro_attr', -1, 'hits']]
    if nclients == 1 and draw(st.integers(0, 5)) == 0:
      pos = draw(st.integers(0, len(clients[0])))
      clients[0][pos:pos] = draw(st.sampled_from([[['restart']], [['shutdown'], ['restart']]]))
    elif nclients == 1 and draw(st.integers(0, 3)) == 0:
      clients[0].insert(draw(st.integers(0, len(clients[0]))), ['shutdown'])
    elif nclients == 1 and draw(st.integers(0, 3)) == 0:
      clients[0].insert(draw(st.integers(0, len(clients[0]))),
                        ['inflight_shutdown', draw(st.sampled_from(['RuntimeError', 'ValueError', 'KeyError', 'value'])), 'resource closed',
                         draw(st.sampled_from(['result', 'raw']))])
    return {'clients': clients}
  return s()


def _strip_cache(o):
  if isinstance(o, dict):
    return {k: (False if k == 'cache' else _strip_cache(v)) for k, v in o.items()}
  if isinstance(o, list):
    return [_strip_cache(x) for x in o]
  return o


SCENARIOS = [
    Scenario('remote_histories', run_case, strategy=strat, setup=setup, budget={'quick': 400, 'thorough': 6000},
             shards={'quick': 12, 'thorough': 16}, nondeterministic=True),
]
