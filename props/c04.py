"""C04 — iterator queues deliver every element exactly once and always terminate."""
from __future__ import annotations

import collections
import queue as _q

from hypothesis import strategies as st

from vlib import dsched
from vlib.core import Scenario, Violation, Inconclusive, check, crash

PROPERTY = 'C04'
LEVEL = 'exploration'
RULE = ('case = (1..3 producers with 0..4 elements and distinct return values, buffer 0 (unbounded) or 1..3, 1..3 consumers each '
        'in one of four modes: get / get_batch(n, block=False) / get_batch(n, block=True) / iterator, '
        'max_batch_size, a thread schedule); the schedule (walk with explicit preemption choices, PCT priorities, or '
        'non-preemptive) is generated data executed by the deterministic scheduler vlib/dsched.py at every synchronisation '
        'operation; oracle = history invariant: multiset received == produced, per (consumer, producer) order, every consumer ends '
        'with StopIteration carrying all return values, all producers return, no deadlock; non-trivial = >= 2 threads on the queue, '
        '>= 1 preemption and a blocked wait on full or empty; distinct = distinct canonical case JSON (schedule included)'
        '; also: a caller-supplied bounded queue object without a maxsize attribute, producer return values of many kinds (falsy scalars, tuple/list/dict/ndarray as one value), streams of 257..300 elements')
ASSUMPTIONS = [
    'shimmed primitives implement the documented stdlib semantics (mutual exclusion, Condition.wait releases and re-acquires, '
    'notify wakes only threads already waiting, no spurious wake-ups, Queue capacity); self-tested in tools/selftest_dsched.py',
    'max_enqueuer is preset to the number of producers, as every caller in the code base does',
    'preemption happens at synchronisation operations, not between arbitrary bytecodes',
    'consumers use get / get_batch / iteration; get_nowait is an internal helper (no caller uses it directly: it neither '
    'holds the dequeue lock nor wakes producers), so polling it directly is outside the supported domain',
]


def setup():
  from ml_metrics._src.utils import iter_utils  # pylint: disable=g-import-not-at-top
  dsched.install(iter_utils)


def ret_value(kind, i):
  """What producer i's generator returns: truthy / falsy scalars and containers (a container is one value, not several)."""
  import numpy as np  # pylint: disable=g-import-not-at-top
  return {'str': f'ret{i}', 'zero': 0, 'empty_str': '', 'empty_tuple': (), 'false': False, 'tuple': ('a', i), 'list': [i, i + 1],
          'dict': {'k': i}, 'array': np.array([i, i + 1])}[kind]


RET_KINDS = ['str', 'str', 'str', 'zero', 'empty_str', 'empty_tuple', 'false', 'tuple', 'list', 'dict', 'array']


def gen(pid, n, ret):
  for i in range(n):
    yield (pid, i)
  return ret


def schedule_strategy(max_choices=40):
  return st.one_of(
      st.builds(lambda c, s, p: {'mode': 'walk', 'choices': c, 'seed': s, 'p_switch': p},
                st.lists(st.integers(0, 3), max_size=max_choices), st.integers(0, 10**6), st.sampled_from([0.1, 0.3, 0.5, 0.8])),
      st.builds(lambda c, s, p: {'mode': 'walk', 'choices': c, 'seed': s, 'p_switch': p},
                st.lists(st.integers(0, 3), max_size=max_choices), st.integers(0, 10**6), st.sampled_from([0.1, 0.3, 0.5, 0.8])),
      st.builds(lambda s, cp: {'mode': 'pct', 'seed': s, 'change_points': cp}, st.integers(0, 10**6),
                st.lists(st.integers(0, 400), max_size=4)),
      st.just({'mode': 'np'}),
  )


def consumer_body(q, mode, n, out, poll_sleep):
  """Drains q in the given mode; returns the terminal StopIteration args."""
  while True:
    try:
      if mode == 'get':
        out.append(q.get())
      elif mode == 'batch_nb':
        out.extend(q.get_batch(n, block=False))
      elif mode == 'batch_b':
        out.extend(q.get_batch(n, block=True))
      elif mode == 'nowait':
        try:
          out.append(q.get_nowait())
        except _q.Empty:
          poll_sleep()
      else:
        raise ValueError(mode)
    except StopIteration as e:
      return e.args


class RingQueue:
  """A caller-supplied queue object: the documented protocol (get_nowait / put_nowait / empty) and nothing else - in
  particular no `maxsize` attribute, although it is bounded (cap) - with the scheduler's yield points."""

  def __init__(self, cap):
    import collections  # pylint: disable=g-import-not-at-top
    self.cap = cap
    self.items = collections.deque()

  def put_nowait(self, x):
    import queue  # pylint: disable=g-import-not-at-top
    dsched.S().yield_('RingQueue.put_nowait')
    if self.cap and len(self.items) >= self.cap:
      raise queue.Full
    self.items.append(x)

  def get_nowait(self):
    import queue  # pylint: disable=g-import-not-at-top
    dsched.S().yield_('RingQueue.get_nowait')
    if not self.items:
      raise queue.Empty
    return self.items.popleft()

  def empty(self):
    return not self.items

  def qsize(self):
    return len(self.items)


def run_case(case):
  from ml_metrics._src.utils import iter_utils  # pylint: disable=g-import-not-at-top
  prods, cons = case['producers'], case['consumers']
  what = f'producers={prods} buffer={case["buffer"]} consumers={cons} max_batch_size={case["max_batch_size"]}'
  received = [[] for _ in cons]
  finals = [None] * len(cons)
  prod_done = [False] * len(prods)
  errors = []
  box = {}
  rets = case.get('rets') or ['str'] * len(prods)
  what += f' return values={rets}'

  def main():
    q = iter_utils.IteratorQueue(RingQueue(case['buffer']) if case.get('queue_object') else case['buffer'], max_enqueuer=len(prods),
                                 max_batch_size=case['max_batch_size'], name='q')
    box['q'] = q

    def producer(i):
      try:
        q.enqueue_from_iterator(gen(i, prods[i], ret_value(rets[i], i)))
        prod_done[i] = True
      except Exception as e:  # pylint: disable=broad-exception-caught
        errors.append(('producer', i, e))

    def consumer(i):
      try:
        c = cons[i]
        if c['mode'] == 'iter':
          it = iter(q)
          while True:
            try:
              received[i].append(next(it))
            except StopIteration as e:
              finals[i] = e.args
              return
        finals[i] = consumer_body(q, c['mode'], c['n'], received[i], lambda: dsched.time_shim.sleep(0.01))
      except dsched._Killed:  # pylint: disable=protected-access
        raise
      except Exception as e:  # pylint: disable=broad-exception-caught
        errors.append(('consumer', i, e))
    ths = [dsched.Thread(target=producer, args=(i,), name=f'P{i}') for i in range(len(prods))]
    ths += [dsched.Thread(target=consumer, args=(i,), name=f'C{i}') for i in range(len(cons))]
    order = case.get('start_order') or list(range(len(ths)))
    for k in order:
      ths[k % len(ths)].start() if not ths[k % len(ths)].vt else None
    for t in ths:
      if not t.vt:
        t.start()
    for t in ths:
      t.join()
  try:
    _, s = dsched.run(main, case['schedule'], max_steps=30000 if sum(prods) < 100 else 400000)
  except dsched.Deadlock as e:
    raise Violation('deadlock', f'{what}: {e}') from e
  except dsched.StepBudget as e:
    raise Inconclusive(str(e)) from e
  for kind, i, e in errors:
    raise crash(e, f'{what}: {kind} {i}')
  q = box['q']
  produced = [(p, i) for p, n in enumerate(prods) for i in range(n)]
  flat = [x for r in received for x in r]
  cnt = collections.Counter(flat)
  dup = [k for k, v in cnt.items() if v > 1]
  check(not dup, 'element-delivered-twice', f'{what}: {dup} received more than once; received={received}')
  check(sorted(flat) == sorted(produced), 'element-lost-or-invented', f'{what}: produced {produced}, received {received}')
  for ci, r in enumerate(received):
    last = {}
    for p, i in r:
      check(last.get(p, -1) < i, 'per-producer-order-violated', f'{what}: consumer {ci} received {r}')
      last[p] = i
  want_ret = sorted(repr(ret_value(rets[i], i)) for i in range(len(prods)))
  for ci, f in enumerate(finals):
    check(f is not None, 'consumer-did-not-terminate', f'{what}: consumer {ci} has no terminal StopIteration')
    check(sorted(map(repr, f)) == want_ret, 'end-of-stream-misses-return-values',
          f'{what}: consumer {ci} ended with StopIteration{f!r}, want the producers\' return values {want_ret}')
  check(all(prod_done), 'producer-did-not-return', f'{what}: producers done = {prod_done}')
  check(q.exhausted and q.enqueue_done, 'queue-not-exhausted-at-end', f'{what}: exhausted={q.exhausted} enqueue_done={q.enqueue_done}')
  waited = sum(v for k, v in s.blocked_events.items() if k in ('Condition.wait',))
  nt = len(prods) + len(cons) >= 2 and s.preemptions >= 1 and waited >= 1
  cl = [f'buffer-{min(case["buffer"], 2)}', f'threads-{len(prods) + len(cons)}', f'sched-{case["schedule"]["mode"]}'] + sorted(
      {f'mode-{c["mode"]}' for c in cons}) + (['waited'] if waited else []) + (['preempted'] if s.preemptions else [])
  return {'nontrivial': nt, 'classes': cl, 'extra': {'scheduling_points': s.steps, 'preemptions': s.preemptions}}


def strat(tier):
  @st.composite
  def s(draw):
    prods = draw(st.lists(st.integers(0, 4), min_size=1, max_size=3))
    cons = draw(st.lists(st.builds(lambda m, n: {'mode': m, 'n': n},
                                   st.sampled_from(['get', 'batch_nb', 'batch_b', 'batch_b', 'iter']), st.integers(1, 3)),
                         min_size=1, max_size=3))
    case = {'producers': prods, 'buffer': draw(st.sampled_from([0, 1, 1, 2, 3])), 'consumers': cons,
            'max_batch_size': draw(st.sampled_from([0, 0, 1, 2])), 'schedule': draw(schedule_strategy()),
            'rets': [draw(st.sampled_from(RET_KINDS)) for _ in prods], 'queue_object': draw(st.integers(0, 3)) == 0}
    if draw(st.integers(0, 99)) == 0:
      # a long stream that an iterating consumer may receive as one batch of more than 2**8 elements
      case.update(producers=draw(st.sampled_from([[257], [300], [150, 150]])), buffer=0, consumers=[{'mode': 'iter', 'n': 1}],
                  max_batch_size=draw(st.sampled_from([0, 1024])), schedule=draw(st.sampled_from([{'mode': 'np'}, {
                      'mode': 'walk', 'choices': [], 'seed': 1, 'p_switch': 0.1}])))
      case['rets'] = ['str'] * len(case['producers'])
    return case
  return s()


SCENARIOS = [
    Scenario('queue_schedules', run_case, strategy=strat, setup=setup, budget={'quick': 8000, 'thorough': 150000},
             shards={'quick': 12, 'thorough': 16}),
]
