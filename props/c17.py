"""C17 — lazy expressions evaluate to what the eager expression would; cache semantics."""
from __future__ import annotations

import collections
import copy

from hypothesis import strategies as st

from vlib import targets
from vlib.core import Scenario, Violation, check, crash, canonical

PROPERTY = 'C17'
LEVEL = 'exploration'
RULE = ('history = pool of generated expression ASTs (depth <= 5: traced functions with positional/keyword arguments that are '
        'themselves lazy, results that are None / 0 / '' / () / False, traced classes -> instance -> attribute / item / method call / call chains, cache_result_ / lazy_result_ '
        'flags) and a sequence of make / make-after-pickle / clear_cache / clear_object / deref / flood(n distinct cached '
        'expressions) operations; model = eager interpreter over the same AST plus explicit OrderedDict LRU caches (bounds 128 and '
        '1024) predicting values, identity of cached results, invocation counts, cache_info() and LazyObjectMissingError; second '
        'scenario: LruCache state machine vs the same model for maxsize 1..5; non-trivial = depth >= 3 with a lazy argument, or a '
        'history that exceeds a bound and re-touches an old key; distinct = distinct canonical case JSON'
        '; also: keyword order, same-object cached calls with array arguments, bytes arguments, floods of 255..300 held objects, arguments that raise StopIteration, single-underscore attribute names, a held object dropped and then dereferenced, calls on held objects and on traced constants (None / falsy), the same keywords in both orders both cached, factories that return a lazy object, held objects mutated through successive dereferences')
ASSUMPTIONS = [
    'all callables live in vlib/targets.py (importable, so cloudpickle pickles them by reference) and count their invocations',
    'expression equality (cache key) is the library\'s: same callable, same arguments and keyword arguments, recursively - the '
    'cache/lazy flags are not part of it; modelled by the canonical JSON of the subtree with the flags stripped',
]

BOUND_FN, BOUND_OBJ = 128, 1024


def _guard(fn, what):
  try:
    return fn()
  except Violation:
    raise
  except Exception as e:  # pylint: disable=broad-exception-caught
    raise crash(e, what) from e


# ------------------------------------------------------------------------------------------------ building the real expression
def build(e):
  from ml_metrics._src.chainables import lazy_fns as lf  # pylint: disable=g-import-not-at-top
  if 'c' in e:
    return e['c']
  if 'arr' in e:
    import numpy as np  # pylint: disable=g-import-not-at-top
    return np.array(e['arr'])
  if 'b' in e:
    return e['b'].encode('latin-1')
  k = e['k']
  if k == 'call':
    fn = lf.trace(getattr(targets, e['fn']))
    args = [build(a) for a in e['args']]
    kwargs = {n: build(v) for n, v in e.get('kwargs', [])}
    return fn(*args, cache_result_=e.get('cache', False), lazy_result_=e.get('lazy', False), **kwargs)
  if k == 'attr':
    return getattr(build(e['obj']), e['name'])
  if k == 'item':
    return build(e['obj'])[e['key']]
  if k == 'mcall':
    return getattr(build(e['obj']), e['name'])(*[build(a) for a in e['args']], cache_result_=e.get('cache', False))
  if k == 'ocall':
    return build(e['obj'])(*[build(a) for a in e['args']], cache_result_=e.get('cache', False))
  raise ValueError(e)


# ------------------------------------------------------------------------------------------------ eager model with explicit caches
class Missing(Exception):
  pass


def _strip_flags(e):
  if isinstance(e, dict):
    return {k: _strip_flags(v) for k, v in e.items() if k not in ('cache', 'lazy')}
  if isinstance(e, list):
    return [_strip_flags(x) for x in e]
  return e


def cache_key(e):
  """Expression equality as the library defines it (LazyFn.__eq__/__hash__): callable, args and kwargs, recursively;
  the cache_result_/lazy_result_ flags of the expression and of its sub-expressions are not part of it."""
  return canonical(_strip_flags(e))


TRACED_CONSTANTS = [None, 0, '', 'abc', 7]


class Handle:
  """Model of a LazyObject returned for lazy_result_=True."""

  def __init__(self, n):
    self.n = n


class Model:

  def __init__(self):
    self.fn_cache = collections.OrderedDict()
    self.obj_cache = collections.OrderedDict()
    self.hits = self.misses = 0
    self.ohits = self.omisses = 0
    self.calls = collections.Counter()
    self.nhandles = 0

  def clear_cache(self):
    self.fn_cache.clear()
    self.hits = self.misses = 0

  def clear_object(self):
    self.obj_cache.clear()
    self.ohits = self.omisses = 0

  def deref(self, h):
    if h.n not in self.obj_cache:
      self.omisses += 1
      raise Missing()
    self.ohits += 1
    self.obj_cache.move_to_end(h.n)
    return self.obj_cache[h.n]

  def ev(self, e):
    if 'c' in e:
      return e['c']
    if 'arr' in e:
      import numpy as np  # pylint: disable=g-import-not-at-top
      return np.array(e['arr'])
    if 'b' in e:
      return e['b'].encode('latin-1')
    cached = e.get('cache', False)
    key = cache_key(e)
    if cached:
      if key in self.fn_cache:
        self.hits += 1
        self.fn_cache.move_to_end(key)
        return self.fn_cache[key]
      self.misses += 1
    k = e['k']
    if k == 'call':
      args = [self._val(self.ev(a)) for a in e['args']]
      kwargs = {n: self._val(self.ev(v)) for n, v in e.get('kwargs', [])}
      self.calls[e['fn']] += 1
      # a factory that returns a lazy object: the eager value is the object that lazy object stands for
      res = targets.Counting(*args, **kwargs) if e['fn'] == 'make_lazy_counting' else getattr(targets, e['fn'])(*args, **kwargs)
    elif k == 'attr':
      res = getattr(self._val(self.ev(e['obj'])), e['name'])
    elif k == 'item':
      res = self._val(self.ev(e['obj']))[e['key']]
    elif k == 'mcall':
      obj = self._val(self.ev(e['obj']))
      args = [self._val(self.ev(a)) for a in e['args']]
      self.calls[f'Counting.{e["name"]}'] += 1
      res = getattr(obj, e['name'])(*args)
    elif k == 'ocall':
      obj = self._val(self.ev(e['obj']))
      args = [self._val(self.ev(a)) for a in e['args']]
      self.calls['Counting.__call__'] += 1
      res = obj(*args)
    else:
      raise ValueError(e)
    if e.get('lazy', False):
      self.nhandles += 1
      h = Handle(self.nhandles)
      self.obj_cache[h.n] = res
      if len(self.obj_cache) > BOUND_OBJ:
        self.obj_cache.popitem(last=False)
      res = h
    if cached:
      self.fn_cache[key] = res
      if len(self.fn_cache) > BOUND_FN:
        self.fn_cache.popitem(last=False)
    return res

  def describe(self, sel, cached):
    """counted_describe(<held object | traced constant>): a held object is its own cache key (two handles never share an
    entry, not even with equal values), a traced constant is keyed by its value."""
    key = canonical({'k': 'describe', 'arg': list(sel)})
    if cached:
      if key in self.fn_cache:
        self.hits += 1
        self.fn_cache.move_to_end(key)
        return self.fn_cache[key]
      self.misses += 1
    val = self.deref(Handle(sel[1])) if sel[0] == 'h' else TRACED_CONSTANTS[sel[1]]
    self.calls['counted_describe'] += 1
    res = ['described', val]
    if cached:
      self.fn_cache[key] = res
      if len(self.fn_cache) > BOUND_FN:
        self.fn_cache.popitem(last=False)
    return res

  def _val(self, v):
    """A lazy-result handle used as an argument is dereferenced (like any lazy argument)."""
    if isinstance(v, Handle):
      return self.deref(v)
    return v


def _same_value(a, b):
  if isinstance(a, targets.Counting) or isinstance(b, targets.Counting):
    return isinstance(a, targets.Counting) and isinstance(b, targets.Counting) and (a.base, a.hits) == (b.base, b.hits)
  return type(a) is type(b) and a == b


def _depth(e):
  if 'c' in e or 'arr' in e or 'b' in e:
    return 0
  subs = [e.get('obj')] + list(e.get('args', [])) + [v for _, v in e.get('kwargs', [])]
  return 1 + max([_depth(s) for s in subs if s is not None] or [0])


def run_history(case):
  from ml_metrics._src.chainables import lazy_fns as lf  # pylint: disable=g-import-not-at-top
  lf.clear_cache()
  lf.clear_object()
  targets.reset_calls()
  model = Model()
  exprs = case['exprs']
  what = f'exprs={exprs}'
  same_objs = {}
  handles = []          # (real LazyObject, model Handle)
  seen_identity = {}    # cache key -> real object returned while the entry was live
  exceeded = False
  retouched = False
  for step, op in enumerate(case['ops']):
    w = f'{what}: step {step} {op}'
    kind = op[0]
    if kind in ('make', 'make_pickled'):
      e = exprs[op[1] % len(exprs)]
      # expected value from the model; the model calls the same counting functions, so isolate the counters
      saved = dict(targets.CALLS)
      before = collections.Counter(model.calls)
      try:
        want, want_exc = model.ev(e), None
      except Missing:
        want, want_exc = None, 'missing'
      except (ValueError, KeyError) as ex:
        want, want_exc = None, (type(ex).__name__, str(ex))
      except StopIteration:
        want, want_exc = None, 'stop-iteration'
      delta = model.calls - before
      targets.CALLS.clear()
      targets.CALLS.update(saved)
      lazy = _guard(lambda: build(e), f'{w}: tracing')
      if kind == 'make_pickled':
        lazy = _guard(lambda: lf.pickler.loads(lf.pickler.dumps(lazy)), f'{w}: pickle round trip')
      real_before = collections.Counter(targets.CALLS)
      try:
        got, got_exc = lf.maybe_make(lazy), None
      except lf.LazyObjectMissingError:
        got, got_exc = None, 'missing'
      except (ValueError, KeyError) as ex:
        got, got_exc = None, (type(ex).__name__, str(ex))
      except StopIteration:
        got, got_exc = None, 'stop-iteration'
      except RuntimeError as ex:
        # a StopIteration leaving a generator surfaces as RuntimeError (PEP 479): still an error, as in the eager evaluation
        if not isinstance(ex.__cause__ or ex.__context__, StopIteration):
          raise crash(ex, w) from ex
        got, got_exc = None, 'stop-iteration'
      except Exception as ex:  # pylint: disable=broad-exception-caught
        raise crash(ex, w) from ex
      check(got_exc == want_exc, 'exception-differs-from-eager', f'{w}: lazy raised {got_exc!r}, eager model {want_exc!r}')
      real_delta = collections.Counter(targets.CALLS) - real_before
      real_delta = collections.Counter({k: v for k, v in real_delta.items() if k not in ('Counting.__init__',)})
      check(dict(real_delta) == dict(delta), 'evaluation-count-differs',
            f'{w}: functions invoked {dict(real_delta)}, eager model (with its cache) predicts {dict(delta)}')
      if got_exc is None:
        if isinstance(want, Handle):
          check(isinstance(got, lf.LazyObject) and not isinstance(got, lf.LazyFn), 'lazy-result-not-a-handle', f'{w}: got {got!r}')
          handles.append((got, want))
        else:
          check(_same_value(got, want), 'value-differs-from-eager', f'{w}: lazy value {got!r}, eager value {want!r}')
        if e.get('cache'):
          key = cache_key(e)
          prev = seen_identity.get(key)
          live = prev is not None and prev[1] is model.fn_cache.get(key)
          if live and not isinstance(want, Handle):
            check(got is prev[0], 'cached-result-not-identical', f'{w}: cached expression returned a different object than before')
            retouched = retouched or exceeded
          seen_identity[key] = (got, model.fn_cache.get(key), True)
    elif kind == 'make_same':
      # the very same traced expression object is evaluated again (optionally through a pickle round trip, which keeps its
      # id): expressions with array arguments are hashed by id, so only the same object can hit the cache
      pool = case.get('arr_exprs') or []
      if not pool:
        continue
      j = op[1] % len(pool)
      e = pool[j]
      want = model.ev(e)
      delta_before = collections.Counter(targets.CALLS)
      if j not in same_objs:
        same_objs[j] = _guard(lambda: build(e), f'{w}: tracing')
      lazy = same_objs[j]
      if op[2]:
        lazy = _guard(lambda: lf.pickler.loads(lf.pickler.dumps(lazy)), f'{w}: pickle round trip')
      got = _guard(lambda: lf.maybe_make(lazy), w)
      check(_same_value(got, want), 'value-differs-from-eager', f'{w}: lazy value {got!r}, eager value {want!r}')
    elif kind == 'describe':
      # a call whose argument is a held object (the LazyObject an earlier lazy_result_ evaluation returned) or a traced constant
      sel, cached = op[1], op[2]
      if sel[0] == 'h':
        if not handles:
          continue
        real_arg, model_h = handles[sel[1] % len(handles)]
        sel = ['h', model_h.n]
      else:
        real_arg = lf.trace(TRACED_CONSTANTS[sel[1] % len(TRACED_CONSTANTS)])
        sel = ['tc', sel[1] % len(TRACED_CONSTANTS)]
      before = model.calls['counted_describe']
      try:
        want, want_exc = model.describe(sel, cached), None
      except Missing:
        want, want_exc = None, 'missing'
      real_before = targets.CALLS.get('counted_describe', 0)
      lazy = _guard(lambda: lf.trace(targets.counted_describe)(real_arg, cache_result_=cached), f'{w}: tracing')
      try:
        got, got_exc = lf.maybe_make(lazy), None
      except lf.LazyObjectMissingError:
        got, got_exc = None, 'missing'
      except Exception as ex:  # pylint: disable=broad-exception-caught
        raise crash(ex, w) from ex
      check(got_exc == want_exc, 'missing-object-behaviour-differs', f'{w}: lazy raised {got_exc!r}, eager model {want_exc!r}')
      check(targets.CALLS.get('counted_describe', 0) - real_before == model.calls['counted_describe'] - before, 'evaluation-count-differs',
            f'{w}: counted_describe invoked {targets.CALLS.get("counted_describe", 0) - real_before} times, eager model (with its cache) '
            f'predicts {model.calls["counted_describe"] - before}')
      if got_exc is None:
        check(isinstance(got, list) and len(got) == 2 and got[0] == 'described' and _same_value(got[1], want[1]), 'value-differs-from-eager',
              f'{w}: lazy value {got!r}, eager value {want!r}')
    elif kind == 'clear_cache':
      lf.clear_cache()
      model.clear_cache()
      seen_identity.clear()
    elif kind == 'clear_object':
      lf.clear_object()
      model.clear_object()
    elif kind == 'deref':
      if not handles:
        continue
      real_h, model_h = handles[op[1] % len(handles)]
      try:
        want, want_exc = model.deref(model_h), None
      except Missing:
        want, want_exc = None, 'missing'
      try:
        got, got_exc = lf.maybe_make(real_h), None
      except lf.LazyObjectMissingError:
        got, got_exc = None, 'missing'
      except Exception as ex:  # pylint: disable=broad-exception-caught
        raise crash(ex, w) from ex
      check(got_exc == want_exc, 'missing-object-behaviour-differs',
            f'{w}: dereferencing gave {"LazyObjectMissingError" if got_exc else repr(got)}, model says {"missing" if want_exc else repr(want)}')
      if got_exc is None:
        check(_same_value(got, want), 'stale-or-wrong-object', f'{w}: dereferenced {got!r}, model {want!r}')
        if isinstance(got, targets.Counting) and isinstance(want, targets.Counting):
          # the held object is *the* object: a change made through one dereference is seen by the next one
          got.bump(1)
          want.bump(1)
    elif kind == 'flood':
      # n distinct cached expressions push older entries out of the bounded cache
      for i in range(op[1]):
        e = {'k': 'call', 'fn': 'counted_add', 'args': [{'c': 100000 + op[2] * 1000 + i}], 'cache': True}
        want = model.ev(e)
        got = _guard(lambda e=e: lf.maybe_make(build(e)), f'{w}: flood {i}')
        check(got == want, 'value-differs-from-eager', f'{w}: flood value {got} vs {want}')
      exceeded = exceeded or op[1] >= BOUND_FN
    elif kind == 'flood_objects':
      for i in range(op[1]):
        e = {'k': 'call', 'fn': 'counted_list', 'args': [{'c': i}], 'lazy': True}
        model.ev(e)
        _guard(lambda e=e: lf.maybe_make(build(e)), f'{w}: flood objects {i}')
      exceeded = True
    # cache_info must agree with the model after every step
    info = lf.cache_info()
    check((info.hits, info.misses, info.currsize) == (model.hits, model.misses, len(model.fn_cache)), 'cache-info-differs',
          f'{w}: cache_info hits/misses/size = {(info.hits, info.misses, info.currsize)}, LRU model = {(model.hits, model.misses, len(model.fn_cache))}')
    oinfo = lf.object_info()
    check(oinfo.currsize == len(model.obj_cache), 'object-cache-size-differs', f'{w}: object cache size {oinfo.currsize}, model {len(model.obj_cache)}')
  deep = any(_depth(e) >= 3 for e in exprs)
  return {'nontrivial': deep or (exceeded and retouched), 'classes': [f'depth-{min(max(_depth(e) for e in exprs), 5)}'] + (
      ['exceeds-bound'] if exceeded else []) + (['retouch-after-eviction-pressure'] if retouched else [])}


# ------------------------------------------------------------------------------------------------ expression grammar
def _int(depth):
  if depth <= 0:
    return st.integers(0, 5).map(lambda v: {'c': v})
  sub = st.deferred(lambda: _int(depth - 1))
  inst = st.deferred(lambda: _inst(depth - 1))
  lst = st.deferred(lambda: _list(depth - 1))
  return st.one_of(
      st.integers(0, 5).map(lambda v: {'c': v}),
      st.builds(lambda a, b, c: {'k': 'call', 'fn': 'counted_add', 'args': [a], 'kwargs': [['y', b]], 'cache': c}, sub, sub, st.booleans()),
      st.builds(lambda a, b, c: {'k': 'call', 'fn': 'counted_add', 'args': [a, b], 'cache': c}, sub, sub, st.booleans()),
      st.builds(lambda o, i: {'k': 'item', 'obj': o, 'key': i}, lst, st.integers(0, 1)),
      st.builds(lambda o: {'k': 'attr', 'obj': o, 'name': 'hits'}, inst),
      st.builds(lambda o: {'k': 'attr', 'obj': o, 'name': 'base'}, inst),
      st.builds(lambda o: {'k': 'attr', 'obj': o, 'name': '_base2'}, inst),
      st.builds(lambda o, by, c: {'k': 'mcall', 'obj': o, 'name': 'bump', 'args': [{'c': by}], 'cache': c}, inst, st.integers(1, 3), st.booleans()),
      st.builds(lambda o, a: {'k': 'ocall', 'obj': o, 'args': [a]}, inst, sub),
      st.builds(lambda o: {'k': 'item', 'obj': o, 'key': 'k'}, inst),
  )


def _list(depth):
  sub = st.deferred(lambda: _int(max(depth - 1, 0)))
  return st.builds(lambda a, c, l: {'k': 'call', 'fn': 'counted_list', 'args': [a], 'cache': c and not l, 'lazy': l}, sub, st.booleans(),
                   st.sampled_from([False, False, True]))


def _inst(depth):
  sub = st.deferred(lambda: _int(max(depth - 1, 0)))
  return st.builds(lambda a, c, l, f: {'k': 'call', 'fn': f, 'args': [a], 'cache': c and not l, 'lazy': l}, sub,
                   st.sampled_from([True, True, False]), st.sampled_from([False, False, False, True]),
                   st.sampled_from(['make_counting', 'make_counting', 'make_lazy_counting']))


def _falsy(depth):
  """A call whose value is None / 0 / '' / () / False, cached, held as an object, or plain."""
  sub = st.deferred(lambda: _int(max(depth - 1, 0)))
  return st.builds(lambda a, c, l: {'k': 'call', 'fn': 'counted_falsy', 'args': [a], 'cache': c and not l, 'lazy': l}, sub,
                   st.sampled_from([True, True, False]), st.sampled_from([False, False, True]))


def _raising(stop=True):
  return st.builds(lambda m, f: {'k': 'call', 'fn': f, 'args': [{'c': m}]}, st.sampled_from(['boom', 'x y', '']),
                   st.sampled_from(['raise_value_error', 'raise_value_error', 'raise_key_error'] + (['raise_stop_iteration'] if stop else [])))


def strat_history(tier):
  maxops = 12 if tier == 'quick' else 30

  @st.composite
  def s(draw):
    depth = draw(st.integers(1, 4))
    kworder = st.builds(lambda a, b, names, c: {'k': 'call', 'fn': 'kw_names', 'args': [], 'kwargs': [[names[0], a], [names[1], b]], 'cache': c},
                        _int(1), _int(1), st.sampled_from([['zeta', 'alpha'], ['b', 'a'], ['a', 'b'], ['y', 'x']]), st.booleans())
    # plain bytes arguments (also ones that happen to be valid pickles) reach the callable untouched
    bytes_arg = st.builds(lambda b, c: {'k': 'call', 'fn': 'counted_len', 'args': [{'b': b}], 'cache': c},
                          st.sampled_from(['abc', 'N.', '', '\x80\x04N.', 'I1\n.']), st.booleans())
    top = st.one_of(_int(depth), _int(depth), _list(depth), _inst(depth), _falsy(depth), kworder, bytes_arg,
                    st.builds(lambda a, r, first: {'k': 'call', 'fn': 'counted_add', 'args': [r, a] if first else [a, r]}, _int(1), _raising(), st.booleans()))
    exprs = draw(st.lists(top, min_size=1, max_size=4))
    op = st.one_of(st.tuples(st.just('make'), st.integers(0, 3)).map(list), st.tuples(st.just('make'), st.integers(0, 3)).map(list),
                   st.tuples(st.just('make_pickled'), st.integers(0, 3)).map(list), st.just(['clear_cache']),
                   st.just(['clear_object']), st.tuples(st.just('deref'), st.integers(0, 5)).map(list),
                   st.tuples(st.just('deref'), st.integers(0, 5)).map(list))
    ops = draw(st.lists(op, min_size=2, max_size=maxops))
    if draw(st.integers(0, 3)) == 0:
      pos = draw(st.integers(0, len(ops)))
      n = draw(st.sampled_from([5, 127, 128, 129, 140]))
      ops.insert(pos, ['flood', n, draw(st.integers(0, 9))])
      ops.append(['make', draw(st.integers(0, 3))])
    if tier == 'thorough' and draw(st.integers(0, 15)) == 0:
      ops.insert(draw(st.integers(0, len(ops))), ['flood_objects', draw(st.sampled_from([1023, 1024, 1030]))])
      ops.append(['deref', 0])
    elif draw(st.integers(0, 19)) == 0:
      # more than 2**8 held objects are created while earlier handles are still in use (well below the cache bound)
      ops.insert(draw(st.integers(1, len(ops))), ['flood_objects', draw(st.sampled_from([255, 256, 257, 300]))])
      ops += [['deref', 0], ['deref', 1]]
    if draw(st.integers(0, 4)) == 0:
      # a held object is dropped and then asked for: create one, clear the object store, dereference
      exprs = exprs[:3] + [{'k': 'call', 'fn': draw(st.sampled_from(['make_counting', 'make_lazy_counting'])), 'args': [{'c': draw(st.integers(0, 5))}],
                            'cache': False, 'lazy': True}]
      # ... or kept and dereferenced repeatedly
      ops += [['make', len(exprs) - 1]] + draw(st.sampled_from([[['clear_object'], ['deref', draw(st.integers(0, 5))]],
                                                                 [['deref', 0], ['deref', 0], ['deref', 1]]]))
    if draw(st.integers(0, 3)) == 0:
      # calls on held objects and on traced constants (also None / falsy ones), cached and not, in a drawn order
      exprs = exprs[:3] + [{'k': 'call', 'fn': draw(st.sampled_from(['make_counting', 'counted_list', 'counted_falsy'])),
                            'args': [{'c': draw(st.integers(0, 5))}], 'cache': False, 'lazy': True}]
      sel = st.one_of(st.tuples(st.just('h'), st.integers(0, 3)).map(list), st.tuples(st.just('tc'), st.integers(0, 4)).map(list))
      block = [['make', len(exprs) - 1]] + draw(st.lists(st.tuples(st.just('describe'), sel, st.sampled_from([True, True, False])).map(list),
                                                       min_size=2, max_size=5))
      pos = draw(st.integers(0, len(ops)))
      ops[pos:pos] = block
    if draw(st.integers(0, 4)) == 0:
      # the same keyword arguments in two different orders, both cached: two different expressions (the callee sees the order)
      va, vb = draw(st.integers(0, 5)), draw(st.integers(0, 5))
      na, nb = draw(st.sampled_from([['a', 'b'], ['zeta', 'alpha'], ['x', 'y']]))
      exprs = exprs[:2] + [{'k': 'call', 'fn': 'kw_names', 'args': [], 'kwargs': [[na, {'c': va}], [nb, {'c': vb}]], 'cache': True},
                           {'k': 'call', 'fn': 'kw_names', 'args': [], 'kwargs': [[nb, {'c': vb}], [na, {'c': va}]], 'cache': True}]
      i, j = len(exprs) - 2, len(exprs) - 1
      ops += draw(st.sampled_from([[['make', i], ['make', j]], [['make', j], ['make', i], ['make', j]], [['make_pickled', i], ['make', j]]]))
    case = {'exprs': exprs, 'ops': ops}
    if draw(st.integers(0, 3)) == 0:
      case['arr_exprs'] = draw(st.lists(st.builds(
          lambda a, k: {'k': 'call', 'fn': 'counted_arr_sum', 'args': [{'arr': a}, {'c': k}], 'cache': True},
          st.lists(st.integers(0, 5), min_size=2, max_size=4), st.integers(0, 3)), min_size=1, max_size=2, unique_by=repr))
      for _ in range(draw(st.integers(2, 4))):
        ops.insert(draw(st.integers(0, len(ops))), ['make_same', draw(st.integers(0, 1)), draw(st.booleans())])
    return case
  return s()


# ------------------------------------------------------------------------------------------------ LruCache machine
def run_lru(case):
  from ml_metrics._src.utils import func_utils  # pylint: disable=g-import-not-at-top
  m = case['maxsize']
  real = func_utils.LruCache(maxsize=m)
  model = collections.OrderedDict()
  hits = misses = 0
  evicted_then_read = False
  gone = set()
  for step, op in enumerate(case['ops']):
    w = f'LruCache(maxsize={m}) ops={case["ops"]} step {step} {op}'
    if op[0] == 'get':
      k = op[1]
      try:
        got, exc = real[k], None
      except KeyError:
        got, exc = None, 'KeyError'
      if k in model:
        hits += 1
        model.move_to_end(k)
        check(exc is None and got == model[k], 'lru-get-differs', f'{w}: got {got!r}/{exc}, model {model[k]!r}')
      else:
        misses += 1
        check(exc == 'KeyError', 'lru-get-differs', f'{w}: got {got!r} for a key the LRU model has evicted or never saw')
        evicted_then_read = evicted_then_read or k in gone
    elif op[0] == 'set':
      k, v = op[1], op[2]
      if k in model:
        continue        # re-setting a live key is not generated (its effect on recency is unspecified)
      real[k] = v
      model[k] = v
      if len(model) > m:
        old, _ = model.popitem(last=False)
        gone.add(old)
    elif op[0] == 'clear':
      real.cache_clear()
      model.clear()
      hits = misses = 0
    check(len(real) == len(model) and list(real) == list(model), 'lru-order-differs', f'{w}: keys {list(real)}, model {list(model)}')
    info = real.cache_info()
    check((info.hits, info.misses, info.currsize, info.maxsize) == (hits, misses, len(model), m), 'cache-info-differs',
          f'{w}: {info}, model hits={hits} misses={misses} size={len(model)}')
    for k in range(6):
      check((k in real) == (k in model), 'lru-contains-differs', f'{w}: key {k}')
  return {'nontrivial': evicted_then_read, 'classes': [f'maxsize-{m}']}


def strat_lru(tier):
  op = st.one_of(st.tuples(st.just('get'), st.integers(0, 5)).map(list), st.tuples(st.just('set'), st.integers(0, 5), st.integers(0, 99)).map(list),
                 st.tuples(st.just('set'), st.integers(0, 5), st.sampled_from([None, 0, '', False, 7])).map(list), st.just(['clear']))
  return st.builds(lambda m, ops: {'maxsize': m, 'ops': ops}, st.integers(1, 5), st.lists(op, min_size=1, max_size=25))


SCENARIOS = [
    Scenario('lazy_histories', run_history, strategy=strat_history, budget={'quick': 1500, 'thorough': 20000},
             shards={'quick': 10, 'thorough': 16},
             fuzz_runs={'thorough': 60000}, instrument=('ml_metrics._src.chainables.lazy_fns',)),
    Scenario('lru_cache', run_lru, strategy=strat_lru, budget={'quick': 1500, 'thorough': 15000},
             shards={'quick': 2, 'thorough': 8}),
]
