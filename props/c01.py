"""C01 — aggregates are invariant to how data is batched and sharded."""
from __future__ import annotations

import copy

from hypothesis import strategies as st

from vlib import metrics_reg as reg
from vlib.core import Scenario, Violation, check, crash

PROPERTY = 'C01'
LEVEL = 'exploration'
RULE = ('case = (metric, configuration, dataset, composition of the dataset into shards and of each shard into batches, API) '
        'for each of 23 registry entries; oracle (metamorphic): result of merging the shard accumulators == result of one '
        'accumulator fed the whole dataset in one batch (float rtol=atol=1e-9; order-carrying: equal concatenation; reservoir '
        'sampler: size/membership/reviewed-count), and the per-example value of a row equals its value in a singleton batch; '
        'non-trivial = >= 2 batches of different size, or >= 2 shards, or an empty shard, or a NaN/ragged row; distinct = '
        'distinct canonical case JSON'
        '; also: data shifted by 2**24 for the mean / variance family (tolerance 1e-5 on shifted data), datasets of 127..300 rows (a pattern repeated), NaN rows for MinMaxAndCount, fractional histogram weights, relevant ids as tuple/set/frozenset/dict keys, merge_states over list/tuple/iterator/generator, a second roll-up over the merged-in accumulators')
ASSUMPTIONS = [
    'classification metrics get an explicit vocab (documented requirement for stable class ids across batches)',
    'Histogram with explicit range or edges; samplers merged with equal seeds; MinMaxAndCount on non-negative input',
    'the whole dataset is non-empty; individual shards may be empty (accumulators that never saw add)',
    'RRegression columns with zero variance are numerically undefined and not compared',
]
K3 = ('threat_score', 'mean_average_precision', 'ndcg_score')
VOCAB_ENTRIES = ('ConfusionMatrixAggFn', 'TopKConfusionMatrixAggFn', 'SamplewiseClassification')


def entry_for(name):
  return reg.with_vocab(name) if name in VOCAB_ENTRIES else reg.BY_NAME[name]


def _guard(fn, what):
  try:
    return fn()
  except Violation:
    raise
  except Exception as e:  # pylint: disable=broad-exception-caught
    raise crash(e, what) from e


def _cmp(e, cfg, got, want, what, kind):
  if isinstance(got, dict) and isinstance(want, dict):
    check(set(got) == set(want), f'{kind}:{e.name}:keys', f'{what}: keys {sorted(got)} vs {sorted(want)}')
    keys = [k for k in got if k not in K3] + [k for k in got if k in K3]
    for k in keys:
      check(e.equal(cfg, got[k], want[k]), f'{kind}:{e.name}:{k}', f'{what}: {k}: {got[k]!r} vs {want[k]!r}')
  else:
    check(e.equal(cfg, got, want), f'{kind}:{e.name}', f'{what}: {got!r} vs {want!r}')


def run_case(case):
  e = entry_for(case['entry'])
  cfg, shards, api = case['cfg'], case['shards'], case['api']
  all_rows = [r for sh in shards for b in sh for r in b]
  what = f'{e.name}({cfg}) api={api} shards={shards}'
  if api == 'metric':
    whole = e.make(cfg)
    _guard(lambda: whole.add(*e.args(cfg, all_rows)), f'{what}: whole-dataset add')
    accs = []
    for sh in shards:
      m = e.make(cfg)
      for b in sh:
        _guard(lambda m=m, b=b: m.add(*e.args(cfg, b)), f'{what}: add batch {b}')
      accs.append(m)
    if case['fresh_target']:
      accs = [e.make(cfg)] + accs
    merged = accs[0]
    for other in accs[1:]:
      _guard(lambda other=other: merged.merge(other), f'{what}: merge')
    if e.compare == 'sampler':
      msg = e.sampler_ok(cfg, merged, all_rows)
      check(msg is None, f'sampler-invariant:{e.name}', f'{what}: merged sampler: {msg}')
    else:
      got = e.norm(cfg, _guard(merged.result, f'{what}: merged result'))
      want = e.norm(cfg, _guard(whole.result, f'{what}: whole result'))
      _cmp(e, cfg, got, want, f'{what}: merged vs whole-batch', 'batching-changes-result')
      # a second roll-up over the same shard accumulators (all but the receiver of the first one) into a fresh accumulator:
      # the accumulators that were merged in are used again, e.g. a partial and then a global roll-up
      rest = [r for sh in (shards if case['fresh_target'] else shards[1:]) for b in sh for r in b]
      if len(accs) >= 3 and len(rest) >= max(e.min_batch, 1):
        again = e.make(cfg)
        for other in accs[1:]:
          _guard(lambda other=other: again.merge(other), f'{what}: second roll-up merge')
        whole2 = e.make(cfg)
        whole2.add(*e.args(cfg, rest))
        _cmp(e, cfg, e.norm(cfg, _guard(again.result, f'{what}: second roll-up result')), e.norm(cfg, whole2.result()),
             f'{what}: second roll-up over the already merged-in shard accumulators vs one batch of their rows {rest}',
             'batching-changes-result')
  else:
    fn = e.agg(cfg)
    wstate = _guard(lambda: fn.update_state(fn.create_state(), *e.args(cfg, all_rows)), f'{what}: whole update_state')
    states = []
    for sh in shards:
      s = _guard(fn.create_state, f'{what}: create_state')
      for b in sh:
        s = _guard(lambda s=s, b=b: fn.update_state(s, *e.args(cfg, b)), f'{what}: update_state batch {b}')
      states.append(s)
    if case['fresh_target']:
      states = [fn.create_state()] + states
    # the states arrive as a list, a tuple, a one-shot iterator or a generator (what a streaming orchestration layer hands over)
    as_ = case.get('states_as', 'list')
    given = {'list': lambda: states, 'tuple': lambda: tuple(states), 'iter': lambda: iter(states),
             'gen': lambda: (s_ for s_ in states)}[as_]()
    mstate = _guard(lambda: fn.merge_states(given), f'{what}: merge_states over {len(states)} states given as {as_}')
    if e.compare == 'sampler':
      msg = e.sampler_ok(cfg, mstate, all_rows)
      check(msg is None, f'sampler-invariant:{e.name}', f'{what}: merged sampler state: {msg}')
    else:
      got = e.norm(cfg, _guard(lambda: fn.get_result(mstate), f'{what}: get_result(merged)'))
      want = e.norm(cfg, _guard(lambda: fn.get_result(wstate), f'{what}: get_result(whole)'))
      _cmp(e, cfg, got, want, f'{what}: merge_states vs whole-batch', 'batching-changes-result')
  # a metric value for one example never depends on its batch-mates
  if e.per_row and 'metric' in e.apis:
    for sh in shards:
      for b in sh:
        if len(b) < 2:
          continue
        inb = e.rows_norm(cfg, _guard(lambda b=b: e.make(cfg).add(*e.args(cfg, b)), f'{what}: add {b}')) if hasattr(
            e, 'rows_norm') else e.norm(cfg, e.make(cfg).add(*e.args(cfg, b)))
        for i, row in enumerate(b):
          alone = e.make(cfg).add(*e.args(cfg, [row]))
          alone = e.rows_norm(cfg, alone) if hasattr(e, 'rows_norm') else e.norm(cfg, alone)
          got = {k: v[i] for k, v in inb.items()}
          want = {k: v[0] for k, v in alone.items()}
          _cmp(e, cfg, got, want, f'{what}: row {row} inside batch {b} vs alone', 'value-depends-on-batch-mates')
  sizes = [len(b) for sh in shards for b in sh]
  cl = [e.name]
  nt = False
  if len(set(sizes)) >= 2:
    cl.append('unequal-batches'); nt = True
  if len(shards) >= 2:
    cl.append('multi-shard'); nt = True
  if any(not any(len(b) for b in sh) for sh in shards):
    cl.append('empty-shard'); nt = True
  if e.nontrivial_row(cfg, all_rows):
    cl.append('nan-or-ragged'); nt = True
  return {'nontrivial': nt, 'classes': cl}


def strat(tier):
  maxrows = 14 if tier == 'quick' else 40

  @st.composite
  def s(draw):
    e0 = draw(st.sampled_from(reg.ENTRIES))
    e = entry_for(e0.name)
    cfg = draw(e.cfg())
    rows = draw(st.lists(e.row(cfg), min_size=1, max_size=maxrows))
    if draw(st.integers(0, 5)) == 0:
      # a long dataset (a short pattern repeated) crossing the sizes code tends to treat specially: 2**7, 2**8, ...
      base = rows[:5]
      n = draw(st.sampled_from([127, 128, 129, 255, 256, 257, 300]))
      rows = (base * (n // len(base) + 1))[:n]
    nsh = draw(st.integers(1, 4))
    cuts = sorted(draw(st.lists(st.integers(0, len(rows)), min_size=nsh - 1, max_size=nsh - 1)))
    bounds = [0] + cuts + [len(rows)]
    shards = []
    for a, b in zip(bounds, bounds[1:]):
      srows = rows[a:b]
      nb = draw(st.integers(1, 3)) if srows else 0
      bc = sorted(draw(st.lists(st.integers(0, len(srows)), min_size=max(nb - 1, 0), max_size=max(nb - 1, 0))))
      bb = [0] + bc + [len(srows)] if srows else []
      batches = [srows[x:y] for x, y in zip(bb, bb[1:])]
      batches = [bt for bt in batches if len(bt) >= max(e.min_batch, 0) and (len(bt) > 0 or e.min_batch == 0)]
      if e.min_batch == 0 and srows and draw(st.integers(0, 5)) == 0:
        batches.insert(draw(st.integers(0, len(batches))), [])
      # batches that were dropped for being empty must not lose rows: they are empty by construction
      shards.append(batches)
    api = draw(st.sampled_from(list(e.apis)))
    return {'entry': e.name, 'cfg': cfg, 'shards': shards, 'api': api, 'fresh_target': draw(st.booleans()),
            'states_as': draw(st.sampled_from(['list', 'list', 'tuple', 'iter', 'gen']))}
  return s()


def known_topk_truncation(scenario, case, v):
  if case['entry'] != 'TopKRetrieval' or v.kind.split(':')[-1] not in K3:
    return False
  kl = case['cfg']['k_list']
  # a row with fewer predictions than max(k) is evaluated at a k clipped to its batch's longest prediction list
  lens = [len(r[1]) for sh in case['shards'] for b in sh for r in b]
  return kl is None or max(kl) > min(lens)


KNOWN = {'F-C01-topk-truncation': known_topk_truncation}

SCENARIOS = [
    Scenario('compositions', run_case, strategy=strat, budget={'quick': 7000, 'thorough': 80000},
             shards={'quick': 8, 'thorough': 16}),
]
