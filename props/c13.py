"""C13 — parallel iteration yields the sequential multiset and releases its threads."""
from __future__ import annotations

import collections

from hypothesis import strategies as st

from vlib import dsched, targets
from vlib.core import Scenario, Violation, Inconclusive, check, crash, reset_module_caches
from props.c04 import setup, schedule_strategy

PROPERTY = 'C13'
LEVEL = 'exploration'
RULE = ('case = (API in {pmap, piter, piter_fn, piter_multiplex, MultiplexIterator, in-process MultiplexIterator over a thread-fed queue}, parallelism 0..3, buffer 0..3, 1..3 input '
        'generators of length 0..5 with return values, outcome in {exhaust, stop after m elements (num_steps or maybe_stop), an '
        'input raises at position p, the mapped function raises on a value}, generated schedule on the deterministic scheduler with '
        'a shim executor); oracle: on exhaustion multiset(outputs) == multiset(sequential evaluation) and the generators\' return '
        'values are collected; on early stop / failure a duplicate-free sub-multiset, the consumer sees the failure; afterwards '
        'every submitted task has finished, no virtual thread is blocked and MultiplexIterator has shut its pool down; non-trivial '
        '= parallelism >= 2 (or >= 2 inputs) and >= 1 preemption; distinct = distinct canonical case JSON'
        '; also: an in-process MultiplexIterator over a thread-fed queue, pools with fewer threads than sources, 257..300 sources, return values of many kinds; a consumer interrupted by KeyboardInterrupt inside next() of a MultiplexIterator; scenario two_default_pipelines: two piter() pipelines on default pools, the later one drained first; scenario parallel_iteration_line_preemption: the same cases with 1..4 generated preemptions between source lines of the library and 0..2 while a thread is inside one of the input generators (line-level preemption of the deterministic scheduler)')
ASSUMPTIONS = [
    'same scheduler trusted base as C04; the shim ThreadPoolExecutor starts a worker per submitted task up to max_workers',
]


def src(i, n, fail_at, exc, ret_kind='str'):
  from props.c04 import ret_value  # pylint: disable=g-import-not-at-top
  for k in range(n):
    if k == fail_at:
      raise targets.EXC[exc](f'input {i} fails at {k}')
    yield i * 10 + k
  return ret_value(ret_kind, i)


def run_case(case):
  from ml_metrics._src.utils import iter_utils  # pylint: disable=g-import-not-at-top
  api, par, buf, lens, oc = case['api'], case['parallelism'], case['buffer'], case['inputs'], case['outcome']
  what = f'{api}(parallelism={par}, buffer={buf}) inputs={lens} outcome={oc}'
  out, info = [], {}
  reset_module_caches(iter_utils)
  rets = case.get('rets') or ['str'] * len(lens)
  what += f' return values={rets}'
  poison = oc.get('value') if oc['kind'] == 'fail_fn' else None

  def fn(x):
    if x == poison:
      raise targets.EXC[oc['exc']](f'fn fails on {x}')
    return x + 100

  def itfn(it):
    for x in it:
      yield fn(x)
    return 'F'

  def inputs():
    return [src(i, n, oc['p'] if oc['kind'] == 'fail_input' and oc['i'] == i else None, oc.get('exc', 'ValueError'), rets[i])
            for i, n in enumerate(lens)]

  def main():
    # by default a thread per source and one to spare; optionally fewer threads than sources (they wait for a free thread)
    pool = dsched.ThreadPoolExecutor(max_workers=case.get('pool_size') or (max(par, len(lens)) + 1), thread_name_prefix='p')
    info['pool'] = pool
    ins = inputs()
    if api == 'pmap':
      res = iter_utils.pmap(fn, ins[0], max_parallism=par, buffer_size=buf, thread_pool=pool)
    elif api == 'piter':
      res = iter_utils.piter(itfn, input_iterators=ins, max_parallism=par, buffer_size=buf, thread_pool=pool)
    elif api == 'piter_fn':
      res = iter_utils.piter_fn(itfn, input_iterable=ins[0], thread_pool=pool, parallism=par, buffer_size=buf)
    elif api == 'piter_multiplex':
      res = iter_utils.piter_multiplex(ins, pool, buffer_size=buf)
    elif api == 'mux_over_queue':
      # an in-process MultiplexIterator (parallism=0) whose single source is a queue fed by helper threads: stopping the
      # iterator must reach the queue, or its producers stay parked on the full buffer
      info['inner'] = iter_utils.piter_multiplex(ins, pool, buffer_size=buf)
      res = iter_utils.MultiplexIterator(data_sources=[info['inner']], parallism=0, name='mxq')
    else:
      res = iter_utils.MultiplexIterator(data_sources=[list(x) if False else x for x in ins], iter_fn=itfn, parallism=par, name='mx')
    info['res'] = res
    if oc['kind'] == 'interrupt':
      # the consumer is interrupted from outside (Ctrl-C) while it iterates: the exception reaches it at its next wait
      me = dsched.S().cur

      def ctrl_c():
        for _ in range(oc['after']):
          dsched.time_shim.sleep(0)
        dsched.interrupt(me, KeyboardInterrupt())
      dsched.Thread(target=ctrl_c, name='ctrl-c').start()
    try:
      if oc['kind'] == 'stop_after' and isinstance(res, iter_utils.IteratorQueue) and oc['how'] == 'num_steps':
        for x in res.dequeue_as_iterator(num_steps=oc['m']):
          out.append(x)
      else:
        it = iter(res)
        while True:
          if oc['kind'] == 'stop_after' and len(out) >= oc['m']:
            stoppable = it if hasattr(it, 'maybe_stop') else res
            if hasattr(stoppable, 'maybe_stop'):
              stoppable.maybe_stop()
            break
          try:
            out.append(next(it))
          except StopIteration as e:
            info['stop_args'] = e.args
            break
    except dsched._Killed:  # pylint: disable=protected-access
      raise
    except KeyboardInterrupt as e:
      info['interrupted'] = e
    except Exception as e:  # pylint: disable=broad-exception-caught
      info['error'] = e
    dsched.S().cur.pending_exc = None
    # all helper work must be able to finish: shutting the caller's pool down must not hang
    pool.shutdown(wait=True)
  try:
    if case.get('line_fracs'):
      # line-level preemption: the same schedule is first run without targets to learn how many library lines the run
      # executes, then again with 1..4 preemptions between source lines at the drawn fractions of that count
      _, s0 = dsched.run(main, dict(case['schedule'], count_lines=True), max_steps=40000)
      out.clear()
      info.clear()
      reset_module_caches(iter_utils)
      total, ftotal = max(s0.lines, 1), max(s0.focus_lines, 1)
      _, s = dsched.run(main, dict(case['schedule'], line_preempt=[[1 + int(f * (total - 1)), c] for f, c in case['line_fracs']],
                                   focus_preempt=[[1 + int(f * (ftotal - 1)), c] for f, c in case.get('focus_fracs', [])]),
                        max_steps=40000)
    else:
      _, s = dsched.run(main, case['schedule'], max_steps=40000 if len(lens) < 50 else 600000)
  except dsched.Deadlock as e:
    raise Violation('helper-threads-do-not-finish', f'{what}: {e}') from e
  except dsched.StepBudget as e:
    raise Inconclusive(str(e)) from e
  res = info['res']
  sequential = [i * 10 + k + 100 for i, n in enumerate(lens) for k in range(n)]
  if api in ('pmap', 'piter_fn'):
    sequential = [k + 100 for k in range(lens[0])]
  if api in ('piter_multiplex', 'mux_over_queue'):
    sequential = [i * 10 + k for i, n in enumerate(lens) for k in range(n)]
  cnt = collections.Counter(out)
  check(all(v == 1 for v in cnt.values()), 'element-delivered-twice', f'{what}: outputs {out}')
  check(all(x in sequential for x in out), 'element-invented', f'{what}: outputs {out}, sequential {sequential}')
  fails = oc['kind'] == 'fail_input' and oc['p'] < lens[oc['i']] and not (api in ('pmap', 'piter_fn') and oc['i'] != 0) or (
      oc['kind'] == 'fail_fn' and api not in ('piter_multiplex', 'mux_over_queue') and poison is not None and (poison - 0) in [x - 100 for x in sequential])
  if oc['kind'] == 'interrupt' and 'interrupted' in info:
    check('error' not in info, 'unexpected-error', lambda: f'{what}: {info["error"]!r}')
  elif oc['kind'] in ('exhaust', 'interrupt') or (oc['kind'] in ('fail_input', 'fail_fn') and not fails):
    check('error' not in info, 'unexpected-error', lambda: f'{what}: {info["error"]!r}')
    check(sorted(out) == sorted(sequential), 'parallel-output-differs-from-sequential', f'{what}: outputs {sorted(out)}, sequential {sorted(sequential)}')
    if isinstance(res, iter_utils.IteratorQueue):
      if api == 'piter_multiplex':
        from props.c04 import ret_value  # pylint: disable=g-import-not-at-top
        want_ret = sorted(repr(ret_value(rets[i], i)) for i in range(len(lens)))
      elif api == 'pmap':
        want_ret = None
      else:
        want_ret = ['F'] * max(par, 1) if par else None
      if want_ret is not None:
        check(sorted(map(repr, res.returned)) == sorted(map(repr, want_ret)) if api != 'piter_multiplex' else sorted(map(repr, res.returned)) == want_ret,
              'return-values-not-collected', f'{what}: queue.returned = {res.returned}, want {want_ret}')
        # ... and the end-of-stream the consumer actually saw must already carry all of them
        if 'stop_args' in info:
          check((sorted(map(repr, info['stop_args'])) == want_ret) if api == 'piter_multiplex' else sorted(info['stop_args']) == want_ret,
                'end-of-stream-misses-return-values',
                f'{what}: the consumer\'s StopIteration carried {info["stop_args"]!r}, want {want_ret}')
  elif oc['kind'] == 'stop_after':
    total = len(sequential)
    check('error' not in info, 'unexpected-error', lambda: f'{what}: {info["error"]!r}')
    check(len(out) == min(oc['m'], total), 'early-stop-wrong-count', f'{what}: got {len(out)} elements, want {min(oc["m"], total)}')
  else:
    check('error' in info, 'failure-not-seen-by-consumer', f'{what}: consumer finished without error, outputs {out}')
    check(isinstance(info['error'], targets.EXC[oc['exc']]) or any(
        isinstance(c, targets.EXC[oc['exc']]) for c in _chain(info['error'])), 'wrong-failure-seen-by-consumer', f'{what}: consumer saw {info["error"]!r}')
  pool = info['pool']
  check(all(f.done() for f in pool.submitted), 'submitted-task-never-finished', f'{what}: {sum(1 for f in pool.submitted if not f.done())} tasks pending')
  if api == 'MultiplexIterator' and par:
    mp = res._thread_pool  # pylint: disable=protected-access
    finished = oc['kind'] in ('exhaust', 'stop_after') or fails or True
    if finished:
      check(mp._shutdown and mp.all_finished(), 'multiplex-pool-not-shut-down',  # pylint: disable=protected-access
            f'{what}: pool shutdown={mp._shutdown}, workers finished={mp.all_finished()}')  # pylint: disable=protected-access
  nt = (par >= 2 or len(lens) >= 2) and s.preemptions >= 1
  if case.get('line_fracs'):
    return {'nontrivial': nt and s.line_preemptions >= 1,
            'classes': [f'api-{api}', f'outcome-{oc["kind"]}', f'par-{par}', f'line-preemptions-{min(s.line_preemptions, 3)}'],
            'extra': {'scheduling_points': s.steps, 'preemptions': s.preemptions, 'library_lines': s.lines, 'line_preemptions': s.line_preemptions}}
  return {'nontrivial': nt, 'classes': [f'api-{api}', f'outcome-{oc["kind"]}', f'par-{par}', f'sched-{case["schedule"]["mode"]}'],
          'extra': {'scheduling_points': s.steps, 'preemptions': s.preemptions}}


# ------------------------------------------------------------------------------------------------ two pipelines, default pools
def run_two(case):
  """Two independent piter() pipelines built without a thread_pool argument (each gets the default one) and drained in the
  opposite order: the first one's producers sit parked on its full buffer while the second is drained to its end."""
  from ml_metrics._src.utils import iter_utils  # pylint: disable=g-import-not-at-top
  what = f'piter(first={case["first"]}) then piter(second={case["second"]}), buffer={case["buffer"]}, the second drained first'
  out = {'first': [], 'second': []}
  reset_module_caches(iter_utils)

  def main():
    q1 = iter_utils.piter(input_iterators=[src(i, n, None, 'ValueError') for i, n in enumerate(case['first'])], buffer_size=case['buffer'])
    for _ in range(case['settle']):
      dsched.time_shim.sleep(0)
    q2 = iter_utils.piter(input_iterators=[src(50 + i, n, None, 'ValueError') for i, n in enumerate(case['second'])], buffer_size=case['buffer'])
    out['second'] = list(q2)
    out['first'] = list(q1)
  try:
    _, s = dsched.run(main, case['schedule'], max_steps=60000)
  except dsched.Deadlock as e:
    raise Violation('independent-pipelines-block-each-other', f'{what}: {e}') from e
  except dsched.StepBudget as e:
    raise Inconclusive(str(e)) from e
  except Exception as e:  # pylint: disable=broad-exception-caught
    raise crash(e, what) from e
  for name, base, lens in (('first', 0, case['first']), ('second', 50, case['second'])):
    want = sorted((base + i) * 10 + k for i, n in enumerate(lens) for k in range(n))
    check(sorted(out[name]) == want, 'parallel-output-differs-from-sequential', f'{what}: the {name} pipeline gave {sorted(out[name])}, sequential {want}')
  return {'nontrivial': len(case['first']) >= 8, 'classes': ['two-pipelines', f'first-{min(len(case["first"]), 8)}'],
          'extra': {'scheduling_points': s.steps, 'preemptions': s.preemptions}}


def strat_two(tier):
  @st.composite
  def s(draw):
    # the first pipeline has as many sources as a default executor has threads, or a few more / less
    n1 = draw(st.sampled_from([2, 3, 8, 8, 9, 12, 33]))
    return {'first': [draw(st.integers(2, 3)) for _ in range(n1)], 'second': draw(st.lists(st.integers(0, 3), min_size=2, max_size=3)),
            'buffer': draw(st.integers(1, 2)), 'settle': draw(st.sampled_from([0, 5, 40, 200])), 'schedule': draw(schedule_strategy())}
  return s()


def _chain(e):
  seen = []
  while e is not None and e not in seen:
    seen.append(e)
    e = e.__cause__ or e.__context__
  return seen


def strat(tier):
  @st.composite
  def s(draw):
    api = draw(st.sampled_from(['pmap', 'piter', 'piter_fn', 'piter_multiplex', 'MultiplexIterator', 'mux_over_queue']))
    lens = draw(st.lists(st.integers(0, 5), min_size=1, max_size=1 if api in ('pmap', 'piter_fn') else (4 if api in ('piter_multiplex', 'mux_over_queue') else 3)))
    par = draw(st.integers(1 if api in ('piter_multiplex', 'mux_over_queue') else 0, 3))
    kinds = ['exhaust', 'exhaust', 'stop_after', 'fail_input', 'fail_fn']
    if api == 'mux_over_queue':
      kinds = ['exhaust', 'stop_after', 'stop_after', 'fail_input']
    if api == 'piter' and len(lens) >= 2:
      # piter() over several inputs nests a second (input) queue that its result offers no way to stop: early stop and
      # downstream failure are only defined for results that are Stoppable themselves
      kinds = ['exhaust', 'fail_input']
    if par == 0:
      kinds = [k for k in kinds if k != 'stop_after']     # in-process evaluation: nothing to stop
    kind = draw(st.sampled_from(kinds))
    if api == 'MultiplexIterator' and par >= 1 and kind == 'exhaust' and draw(st.integers(0, 3)) == 0:
      oc = {'kind': 'interrupt', 'after': draw(st.integers(0, 12))}
    elif kind == 'exhaust':
      oc = {'kind': kind}
    elif kind == 'stop_after':
      oc = {'kind': kind, 'm': draw(st.integers(0, 6)), 'how': 'maybe_stop' if api == 'mux_over_queue' else draw(st.sampled_from(['num_steps', 'maybe_stop']))}
    elif kind == 'fail_input':
      i = draw(st.integers(0, len(lens) - 1))
      oc = {'kind': kind, 'i': i, 'p': draw(st.integers(0, 5)), 'exc': draw(st.sampled_from(['ValueError', 'KeyError', 'InjectedError']))}
    else:
      oc = {'kind': kind, 'value': draw(st.integers(0, 25)), 'exc': draw(st.sampled_from(['ValueError', 'RuntimeError']))}
    from props.c04 import RET_KINDS  # pylint: disable=g-import-not-at-top
    case = {'api': api, 'parallelism': par, 'buffer': draw(st.integers(0, 3)), 'inputs': lens, 'outcome': oc,
            'schedule': draw(schedule_strategy()), 'rets': [draw(st.sampled_from(RET_KINDS)) for _ in lens]}
    if api in ('piter_multiplex', 'mux_over_queue') and len(lens) >= 2 and draw(st.integers(0, 2)) == 0:
      case['pool_size'] = draw(st.integers(1, len(lens) - 1))      # fewer threads than sources
    if api == 'piter_multiplex' and oc['kind'] == 'exhaust' and draw(st.integers(0, 15)) == 0:
      # very many sources (more than 2**8) on a small pool
      case.update(inputs=[draw(st.sampled_from([0, 1, 1, 2]))] * draw(st.sampled_from([257, 300])), pool_size=draw(st.integers(1, 3)),
                  buffer=0, schedule={'mode': 'walk', 'choices': [], 'seed': draw(st.integers(0, 99)), 'p_switch': 0.5})
      case['rets'] = ['str'] * len(case['inputs'])
    return case
  return s()


def strat_lines(tier):
  @st.composite
  def s(draw):
    case = draw(strat(tier).filter(lambda c: len(c['inputs']) < 50 and c['outcome']['kind'] != 'interrupt'))
    case['line_fracs'] = draw(st.lists(st.tuples(st.floats(0, 1, allow_nan=False), st.integers(0, 3)), min_size=1, max_size=4))
    # ... and 0..2 preemptions while a thread is inside one of the (shared) input generators
    case['focus_fracs'] = draw(st.lists(st.tuples(st.floats(0, 1, allow_nan=False), st.integers(0, 3)), min_size=0, max_size=2))
    return case
  return s()


def setup_lines():
  import ml_metrics  # pylint: disable=g-import-not-at-top
  import os  # pylint: disable=g-import-not-at-top
  setup()
  # the generated input generators count as well: a thread can lose the processor while it is inside the shared input
  dsched.set_line_root(os.path.dirname(os.path.realpath(ml_metrics.__file__)) + os.sep, extra_codes=[src.__code__])


SCENARIOS = [
    Scenario('parallel_iteration', run_case, strategy=strat, setup=setup, budget={'quick': 5000, 'thorough': 100000},
             shards={'quick': 12, 'thorough': 16}),
    Scenario('parallel_iteration_line_preemption', run_case, strategy=strat_lines, setup=setup_lines, budget={'quick': 800, 'thorough': 15000},
             shards={'quick': 8, 'thorough': 16}),
    Scenario('two_default_pipelines', run_two, strategy=strat_two, setup=setup, budget={'quick': 300, 'thorough': 5000},
             shards={'quick': 2, 'thorough': 8}),
]
