"""C15 — the prefetching generator protocol delivers the generator faithfully."""
from __future__ import annotations

import itertools

from hypothesis import strategies as st

from vlib import dsched, targets
from vlib.core import Scenario, Violation, Inconclusive, check, crash
from props.c04 import schedule_strategy

PROPERTY = 'C15'
LEVEL = 'exploration'
RULE = ('case = (prefetch_size 1..3, requested batch size 0..4, generator A of length 0..6 with a return value and an optional '
        'failure position, optional re-initialisation with generator B after k requests, optional stop_prefetch / shutdown request '
        'from a second thread at a schedule-chosen point, a generated schedule); a PrefetchedCourierServer is constructed with its '
        'threading/time rebound to the deterministic scheduler and its request handlers are called from virtual client threads; '
        'oracle: the concatenation of the answers for a generator is exactly its elements in order, each once, then exactly one '
        'terminal marker (StopIteration(ret), or the generator\'s exception after the elements produced before it); after a re-init '
        'has returned no answer contains an element of the old generator; after stop/shutdown answers end with a retriable '
        'TimeoutError; no request blocks forever; concurrent_init: two init_generator requests overlap under generated '
        'schedules (optionally over an earlier generator): the installed generator is delivered faithfully and no prefetch thread '
        'of a superseded generator stays blocked; client_iteration: CourierClient.async_iterate against the real server over the '
        'in-process transport yields exactly the elements, then the return value once or the generator\'s exception (type and '
        'message, incl. messages the client loop compares against); non-trivial = batch size not dividing the length, a failure position > 0, or a '
        're-init before exhaustion; distinct = distinct canonical case JSON')
ASSUMPTIONS = [
    'same scheduler trusted base as C04; handlers are invoked directly (the transport is exercised by C06/C14/C16)',
    'one client drives a generator at a time (the client library serialises generator calls per worker)',
]

_counter = itertools.count()


def setup():
  from ml_metrics._src.chainables import courier_server  # pylint: disable=g-import-not-at-top
  from ml_metrics._src.utils import iter_utils, courier_utils  # pylint: disable=g-import-not-at-top
  dsched.install(iter_utils)
  dsched.install(courier_server, time=True)
  dsched.install(courier_utils, time=True)
  courier_server.CourierServer.__del__ = lambda self: None


def gen_stall(n, fail_at, ret, tag, stall_at):
  """Like targets.gen_range but stalls for 1000 virtual seconds before producing element `stall_at`."""
  for i in range(n):
    if i == stall_at:
      dsched.time_shim.sleep(1000.0)
    if i == fail_at:
      raise KeyError(f'fail at {i}')
    yield (tag, i)
  return ret


def run_case(case):
  from ml_metrics._src.chainables import courier_server, lazy_fns as lf  # pylint: disable=g-import-not-at-top
  a, b = case['gen_a'], case.get('gen_b')
  bs, pf = case['batch_size'], case['prefetch_size']
  what = f'prefetch_size={pf} batch_size={bs} A={a} B={b} reinit_after={case.get("reinit_after")} interrupt={case.get("interrupt")}' + (f' bad_init={case["bad_init"]}' if case.get('bad_init') else '') + (f' watchdog={case["watchdog"]}' if case.get('watchdog') else '')
  log = []       # ('batch', gen tag of the current generator, payload) / ('reinit',)
  info = {}

  def lazy_gen(g, tag):
    if g.get('stall_at') is not None:
      return lf.pickler.dumps(lf.trace(gen_stall)(g['n'], g['fail_at'], g['ret'], tag, g['stall_at']))
    return lf.pickler.dumps(lf.trace(targets.gen_range)(g['n'], g['fail_at'], g['ret'], tag))

  def client():
    wd = case.get('watchdog')     # [auto-shutdown period, pause between two requests]: the server's own serving loop runs
    if wd:
      s = courier_server.PrefetchedCourierServer(f'pf{next(_counter)}', prefetch_size=pf, timeout_secs=wd[0])
      dsched.time_shim.sleep(1.0)
      info['serving'] = dsched.Thread(target=s.run_until_shutdown, name='serving')
      info['serving'].start()
      dsched.time_shim.sleep(1.0)
    else:
      s = courier_server.PrefetchedCourierServer(f'pf{next(_counter)}', prefetch_size=pf)
    info['server'] = s

    def failed_init(when):
      # an initialisation that fails on the server (the factory raises / does not give an iterable): the next request is
      # answered with a terminal marker at once, it does not wait for a generator that was never installed
      bad = lf.trace(targets.raise_value_error)('bad source') if case['bad_init'][1] == 'raises' else lf.trace(targets.counted_add)(1, 2)
      try:
        r = s._init_iterator(lf.pickler.dumps(bad))  # pylint: disable=protected-access
      except Exception as e:  # pylint: disable=broad-exception-caught
        r = e
      check(isinstance(r, Exception), 'bad-generator-accepted', f'{what}: {when}: init of {bad} returned {r!r}')
      batch = lf.pickler.loads(s._next_batch(bs))  # pylint: disable=protected-access
      check(len(batch) == 1 and isinstance(batch[-1], Exception), 'request-after-failed-init-not-terminal',
            f'{what}: {when}: init of {bad} failed with {r!r}; the next request was answered {batch!r}')
    if case.get('bad_init') and case['bad_init'][0] == 'first':
      failed_init('first initialisation')
    r = s._init_iterator(lazy_gen(a, 'A'))  # pylint: disable=protected-access
    check(r is None, 'init-generator-failed', f'{what}: init returned {r!r}')
    info['inited'] = True
    cur = 'A'
    for i in range(40):
      if case.get('reinit_after') is not None and i == case['reinit_after'] and cur == 'A':
        r = s._init_iterator(lazy_gen(b, 'B'))  # pylint: disable=protected-access
        if isinstance(r, Exception):
          log.append(('init_error', cur, r))
          break
        cur = 'B'
        log.append(('reinit',))
      if wd:
        dsched.time_shim.sleep(wd[1])     # a client that is slow but never idle for as long as the auto-shutdown period
      batch = lf.pickler.loads(s._next_batch(bs))  # pylint: disable=protected-access
      log.append(('batch', cur, batch))
      if batch and isinstance(batch[-1], Exception):
        break
    else:
      raise Violation('no-terminal-marker', f'{what}: 40 requests without a terminal marker; log={log}')
    if case.get('bad_init') and case['bad_init'][0] == 'after':
      failed_init('after the generator was served to its end')
    info['client_done_at'] = dsched.S().now
    s._stop_prefetch()  # pylint: disable=protected-access
    if wd:
      s._request_shutdown()  # pylint: disable=protected-access
      info['serving'].join()

  def interrupter():
    kind, after = case['interrupt']
    for _ in range(after):
      dsched.time_shim.sleep(0)
    s = None
    while s is None:
      s = info.get('server') if info.get('inited') else None
      if s is None:
        dsched.time_shim.sleep(0.001)
    info['interrupted_at'] = len(log)
    info['interrupt_time'] = dsched.S().now
    if kind == 'stop_prefetch':
      s._stop_prefetch()  # pylint: disable=protected-access
    else:
      s._request_shutdown()  # pylint: disable=protected-access

  def main():
    ths = [dsched.Thread(target=client, name='client')]
    if case.get('interrupt'):
      ths.append(dsched.Thread(target=interrupter, name='intr'))
    for t in ths:
      t.start()
    for t in ths:
      t.join()
    for t in ths:
      if t.vt.exc is not None:
        raise t.vt.exc
  try:
    _, sch = dsched.run(main, case['schedule'], max_steps=40000)
  except dsched.Deadlock as e:
    raise Violation('request-blocked-forever', f'{what}: {e}') from e
  except dsched.StepBudget as e:
    raise Inconclusive(str(e)) from e
  except Violation:
    raise
  except Exception as e:  # pylint: disable=broad-exception-caught
    raise crash(e, what) from e
  # ---- oracle over the log
  interrupted = case.get('interrupt') is not None
  stalls = a.get('stall_at') is not None and a['stall_at'] < a['n'] and (a['fail_at'] is None or a['stall_at'] <= a['fail_at'])
  if interrupted and case['interrupt'][0] == 'stop_prefetch' and stalls and info.get('interrupt_time', 1e9) < 1000.0:
    # (a shutdown *request* alone only flags the server; the prefetch is stopped by the serving thread, which this harness
    # does not run)
    # a stop issued while the generator is stalled must end the pending request with the retriable marker
    # right away; the request must not stay blocked until the generator moves again (virtual time 1000)
    check(info.get('client_done_at', 1e9) < 1000.0, 'pending-request-not-released-by-stop',
          f'{what}: stop/shutdown was issued at t={info.get("interrupt_time")} but the pending request was only answered at '
          f't={info.get("client_done_at")} (the generator stalls until t=1000); log={log}')

  def expect(g, tag):
    upto = g['n'] if g['fail_at'] is None else min(g['fail_at'], g['n'])
    return [[tag, i] for i in range(upto)]

  segs, cur = {'A': [], 'B': []}, 'A'
  for ev in log:
    if ev[0] == 'reinit':
      cur = 'B'
    elif ev[0] == 'batch':
      segs[ev[1]].append(ev[2])
      for x in ev[2]:
        if not isinstance(x, Exception):
          check(x[0] == ev[1], 'elements-of-two-generators-mixed', f'{what}: answer {ev[2]} after re-init contains an element of the old generator; log={log}')
  for tag, g in (('A', a), ('B', b)):
    batches = segs[tag]
    if g is None or not batches:
      continue
    flat = [x for bt in batches for x in bt]
    elems = [list(x) for x in flat if not isinstance(x, Exception)]
    markers = [x for x in flat if isinstance(x, Exception)]
    want = expect(g, tag)
    superseded = tag == 'A' and any(ev[0] == 'reinit' for ev in log)
    check(elems == want[:len(elems)], 'elements-out-of-order-or-duplicated', f'{what}: generator {tag} delivered {elems}, want prefix of {want}')
    for bt in batches:
      ne = [x for x in bt if not isinstance(x, Exception)]
      if bs and not any(isinstance(x, Exception) for x in bt):
        check(len(ne) == bs, 'wrong-batch-size', f'{what}: answer {bt} for requested batch size {bs}')
      check(all(isinstance(x, Exception) for x in bt[len(ne):]) and len(bt) - len(ne) <= 1, 'marker-not-last', f'{what}: answer {bt}')
    if superseded:
      continue
    check(len(markers) == 1, 'terminal-marker-count', f'{what}: generator {tag} produced {len(markers)} terminal markers; log={log}')
    m = markers[0]
    if interrupted and isinstance(m, (TimeoutError, RuntimeError)) and 'stopped before exhausted' in str(m) or (
        interrupted and isinstance(m, TimeoutError)):
      continue    # retriable marker after stop/shutdown: the elements delivered so far were a correct prefix
    check(elems == want, 'elements-lost-before-terminal-marker',
          f'{what}: generator {tag} delivered {elems} before its terminal marker {m!r}, want all of {want}')
    if g['fail_at'] is not None and g['fail_at'] < g['n']:
      check(isinstance(m, KeyError) and f'fail at {g["fail_at"]}' in str(m), 'wrong-terminal-marker', f'{what}: generator {tag} ended with {m!r}, want its KeyError')
    else:
      check(isinstance(m, StopIteration) and m.value == g['ret'], 'wrong-terminal-marker', f'{what}: generator {tag} ended with {m!r}, want StopIteration({g["ret"]!r})')
  nt = (bs and a['n'] % bs != 0) or (a['fail_at'] not in (None, 0) and a['fail_at'] < a['n']) or (
      case.get('reinit_after') is not None and any(ev[0] == 'reinit' for ev in log))
  return {'nontrivial': bool(nt), 'classes': [f'bs-{bs}', f'prefetch-{pf}', f'sched-{case["schedule"]["mode"]}'] + (
      ['reinit'] if case.get('reinit_after') is not None else []) + ([f'interrupt-{case["interrupt"][0]}'] if interrupted else []) + (
          ['fails'] if a['fail_at'] is not None else []),
          'extra': {'scheduling_points': sch.steps, 'preemptions': sch.preemptions}}


# ------------------------------------------------------------------------------------------------ overlapping initialisations
def run_concurrent_init(case):
  """Two init_generator requests overlap (an earlier generator may be in place): whichever generator ends up installed is
  delivered faithfully, the other one is stopped - in every schedule all prefetch threads end once the client stops."""
  from ml_metrics._src.chainables import courier_server, lazy_fns as lf  # pylint: disable=g-import-not-at-top
  gens = {'E': case.get('gen_e'), 'A': case['gen_a'], 'B': case['gen_b']}
  bs, pf = case['batch_size'], case['prefetch_size']
  what = f'prefetch_size={pf} batch_size={bs} earlier={gens["E"]} concurrent A={gens["A"]} B={gens["B"]}'
  log, info = [], {}

  def lazy_gen(g, tag):
    return lf.pickler.dumps(lf.trace(targets.gen_range)(g['n'], g['fail_at'], g['ret'], tag))

  def main():
    s = courier_server.PrefetchedCourierServer(f'pfc{next(_counter)}', prefetch_size=pf)
    if gens['E'] is not None:
      r = s._init_iterator(lazy_gen(gens['E'], 'E'))  # pylint: disable=protected-access
      check(r is None, 'init-generator-failed', f'{what}: init returned {r!r}')
      for _ in range(case.get('consume_e', 0)):
        s._next_batch(bs)  # pylint: disable=protected-access
    res = {}

    def init(tag):
      res[tag] = s._init_iterator(lazy_gen(gens[tag], tag))  # pylint: disable=protected-access
    ths = [dsched.Thread(target=init, args=(t,), name=f'init{t}') for t in ('A', 'B')]
    for t in ths:
      t.start()
    for t in ths:
      t.join()
    for t in ths:
      if t.vt.exc is not None:
        raise t.vt.exc
    check(all(r is None for r in res.values()), 'init-generator-failed', f'{what}: inits returned {res!r}')
    for _ in range(40):
      batch = lf.pickler.loads(s._next_batch(bs))  # pylint: disable=protected-access
      log.append(batch)
      if batch and isinstance(batch[-1], Exception):
        break
    else:
      raise Violation('no-terminal-marker', f'{what}: 40 requests without a terminal marker; log={log}')
    s._stop_prefetch()  # pylint: disable=protected-access
  try:
    _, sch = dsched.run(main, case['schedule'], max_steps=60000)
  except dsched.Deadlock as e:
    raise Violation('superseded-generator-not-stopped', f'{what}: after the client stopped a thread is still blocked: {e}') from e
  except dsched.StepBudget as e:
    raise Inconclusive(str(e)) from e
  except Violation:
    raise
  except Exception as e:  # pylint: disable=broad-exception-caught
    raise crash(e, what) from e
  flat = [x for b in log for x in b]
  elems = [list(x) for x in flat if not isinstance(x, Exception)]
  markers = [x for x in flat if isinstance(x, Exception)]
  tags = {e[0] for e in elems}
  check(len(tags) <= 1 and tags <= {'A', 'B'}, 'elements-of-two-generators-mixed', f'{what}: delivered {elems}')
  check(len(markers) == 1, 'terminal-marker-count', f'{what}: {len(markers)} terminal markers; log={log}')
  m = markers[0]
  cands = [t for t in ('A', 'B') if not tags or t in tags]
  ok = False
  for t in cands:
    g = gens[t]
    upto = g['n'] if g['fail_at'] is None else min(g['fail_at'], g['n'])
    want = [[t, i] for i in range(upto)]
    if g['fail_at'] is not None and g['fail_at'] < g['n']:
      mk = isinstance(m, KeyError) and f'fail at {g["fail_at"]}' in str(m)
    else:
      mk = isinstance(m, StopIteration) and m.value == g['ret']
    ok = ok or (elems == want and mk)
  check(ok, 'installed-generator-not-delivered-faithfully', f'{what}: delivered {elems} then {m!r}')
  return {'nontrivial': True, 'classes': ['concurrent-init', f'prefetch-{pf}', f'sched-{case["schedule"]["mode"]}'] + (
      ['earlier-generator'] if gens['E'] is not None else []), 'extra': {'scheduling_points': sch.steps, 'preemptions': sch.preemptions}}


def strat_concurrent_init(tier):
  gen = st.builds(lambda n, f, r: {'n': n, 'fail_at': f if f is not None and f <= n else None, 'ret': r},
                  st.integers(0, 6), st.one_of(st.none(), st.none(), st.integers(0, 6)), st.sampled_from(['R', 7, None]))

  @st.composite
  def s(draw):
    case = {'gen_a': draw(gen), 'gen_b': draw(gen), 'batch_size': draw(st.integers(0, 4)), 'prefetch_size': draw(st.integers(1, 3)),
            'schedule': draw(schedule_strategy())}
    if draw(st.booleans()):
      case['gen_e'] = draw(gen)
      case['consume_e'] = draw(st.integers(0, 3))
    return case
  return s()


# ------------------------------------------------------------------------------------------------ the client side of the protocol
def run_client_iteration(case):
  """CourierClient.async_iterate against a real PrefetchedCourierServer over the in-process transport (real threads, asyncio):
  the client yields exactly the generator's elements in order, then either hands the return value to the result queue or
  raises the generator's exception (type and message) - it never keeps polling a generator that has failed."""
  import asyncio  # pylint: disable=g-import-not-at-top
  import queue  # pylint: disable=g-import-not-at-top
  import threading  # pylint: disable=g-import-not-at-top
  import time  # pylint: disable=g-import-not-at-top
  import courier  # pylint: disable=g-import-not-at-top
  from ml_metrics._src.chainables import courier_server, lazy_fns as lf  # pylint: disable=g-import-not-at-top
  from ml_metrics._src.utils import courier_utils  # pylint: disable=g-import-not-at-top
  courier.reset()
  g = case['gen']
  name = f'pfi{next(_counter)}'
  what = f'async_iterate(iterate_batch_size={case["batch_size"]}) prefetch_size={case["prefetch_size"]} generator={g}'
  server = courier_server.PrefetchedCourierServer(name, prefetch_size=case['prefetch_size'], timeout_secs=11000 + next(_counter))
  server.start()
  courier_utils.worker_registry().register(name, time.time())
  import numpy as np  # pylint: disable=g-import-not-at-top
  bsz = {'int': int, 'int32': np.int32, 'int64': np.int64}[case.get('batch_kind', 'int')](case['batch_size'])
  client = courier_utils.CourierClient(name, call_timeout=5, iterate_batch_size=bsz)
  what += f' batch size type={case.get("batch_kind", "int")} busy background jobs={case.get("busy_jobs", 0)}'
  # fire-and-forget jobs keep the server's shared thread pool busy while the generator is served
  gate = f'busy{next(_counter)}'
  import threading as _th  # pylint: disable=g-import-not-at-top
  targets.GATES[gate] = (_th.Event(), _th.Event())
  for _ in range(case.get('busy_jobs', 0)):
    client.call(lf.trace(targets.gated_raise)(gate, 'value', 1), return_immediately=True).result()
  task = courier_utils.GeneratorTask.new(lf.trace(targets.gen_failing_with)(g['n'], g['fail_at'], g['exc'], g['msg'], g['ret'], 'T'))
  rq = queue.SimpleQueue()
  got, box = [], {}
  n2 = case.get('second')          # a second generator of n2 elements is iterated on the same worker afterwards
  got2, box2 = [], {}

  # Network model for the second run: a request for the next batch that reaches the server after the terminal marker of the
  # current generator went out is stale (nobody waits for its answer); it is delayed in the network and arrives only when
  # the next generator is being served.
  courier.LOG_REPLIES = True

  def stale_or_legit(address, method):
    if address != name or method != 'next_batch_from_generator':
      return None
    for c in reversed(list(courier.CALLS)):
      if c[0] != name:
        continue
      if c[1] == 'init_generator':
        # first request for the new generator: the delayed stale requests arrive now, just ahead of it
        if courier.release_parked(name):
          time.sleep(0.02)
        return None
      if c[1] == 'next_batch_from_generator' and len(c) > 4:
        batch = lf.pickler.loads(c[4])
        return 'park' if batch and isinstance(batch[-1], Exception) else None
    return None
  if n2 is not None:
    courier.INTERCEPT = stale_or_legit

  async def drive():
    async for x in client.async_iterate(task, generator_result_queue=rq):
      got.append(list(x))

  async def drive2():
    task2 = courier_utils.GeneratorTask.new(lf.trace(targets.gen_failing_with)(n2, None, 'ValueError', '', 'R2', 'U'))
    async for x in client.async_iterate(task2, generator_result_queue=queue.SimpleQueue()):
      got2.append(list(x))

  def body():
    try:
      asyncio.run(drive())
      box['end'] = ('done',)
    except Exception as e:  # pylint: disable=broad-exception-caught
      box['end'] = ('exc', type(e).__name__, str(e))
    if n2 is not None:
      try:
        asyncio.run(drive2())
        box2['end'] = ('done',)
      except Exception as e:  # pylint: disable=broad-exception-caught
        box2['end'] = ('exc', type(e).__name__, str(e))
  th = threading.Thread(target=body, daemon=True)
  th.start()
  th.join(15)
  hung = th.is_alive()
  courier.INTERCEPT = None
  courier.release_parked(name)
  targets.GATES[gate][1].set()
  targets.GATES.pop(gate, None)
  server._request_shutdown()  # pylint: disable=protected-access
  check(not hung, 'client-keeps-polling-a-finished-generator',
        f'{what}: the client was still asking for batches after 10 s; delivered so far {got}')
  fails = g['fail_at'] is not None
  upto = min(g['fail_at'], g['n']) if fails else g['n']
  check(got == [['T', i] for i in range(upto)], 'client-elements-differ', f'{what}: client yielded {got}')
  if fails:
    want = ('exc', g['exc'], str(targets.EXC[g['exc']](g['msg'])))
    check(box['end'] == want, 'client-does-not-raise-the-generator-failure', f'{what}: client ended with {box["end"]!r}, want {want!r}')
  else:
    check(box['end'] == ('done',), 'client-raised-on-clean-exhaustion', f'{what}: {box["end"]!r}')
    rets = []
    while not rq.empty():
      rets.append(rq.get())
    check(rets == [g['ret']], 'return-value-not-delivered-once', f'{what}: result queue holds {rets!r}, want [{g["ret"]!r}]')
  if n2 is not None:
    check(box2.get('end') == ('done',) and got2 == [['U', i] for i in range(n2)], 'second-generator-on-the-same-worker-differs',
          f'{what}: a second generator of {n2} elements iterated afterwards on the same worker yielded {got2} and ended with '
          f'{box2.get("end")!r} (a request left over from the first iteration must not consume its elements)')
  return {'nontrivial': fails or (case['batch_size'] and g['n'] % case['batch_size'] != 0) or n2 is not None,
          'classes': ['client-iteration'] + (['generator-fails', f'exc-{g["exc"]}'] if fails else []) + (
              ['second-generator'] if n2 is not None else [])}


def strat_client_iteration(tier):
  @st.composite
  def s(draw):
    n = draw(st.integers(0, 6))
    fail_at = draw(st.one_of(st.none(), st.integers(0, n)))
    # messages incl. the interpreter's own wording for a re-entered generator, which the client loop compares against
    g = {'n': n, 'fail_at': fail_at, 'exc': draw(st.sampled_from(['ValueError', 'KeyError', 'RuntimeError', 'TypeError'])),
         'msg': draw(st.sampled_from(['boom', 'generator already executing', 'x y', ''])), 'ret': draw(st.sampled_from(['R', 7, None]))}
    case = {'gen': g, 'batch_size': draw(st.integers(1, 4)), 'prefetch_size': draw(st.integers(1, 3))}
    if draw(st.booleans()):
      case['second'] = draw(st.integers(1, 6))
    case['batch_kind'] = draw(st.sampled_from(['int', 'int', 'int32', 'int64']))
    if draw(st.integers(0, 5)) == 0:
      case['busy_jobs'] = draw(st.sampled_from([19, 20, 33, 40]))      # around and above the default sizes of a shared thread pool
    return case
  return s()


def setup_real():
  from ml_metrics._src.chainables import courier_server  # pylint: disable=g-import-not-at-top
  courier_server.CourierServer.__del__ = lambda self: None


def strat(tier):
  gen = st.builds(lambda n, f, r: {'n': n, 'fail_at': f if f is not None and f <= n else None, 'ret': r},
                  st.integers(0, 6), st.one_of(st.none(), st.none(), st.integers(0, 6)), st.sampled_from(['R', 7, None]))

  @st.composite
  def s(draw):
    case = {'gen_a': draw(gen), 'batch_size': draw(st.integers(0, 4)), 'prefetch_size': draw(st.integers(1, 3)),
            'schedule': draw(schedule_strategy())}
    mode = draw(st.sampled_from(['plain', 'plain', 'reinit', 'interrupt']))
    if mode == 'plain' and draw(st.integers(0, 5)) == 0:
      # the serving loop with a short auto-shutdown period; requests come at shorter intervals than the period, the whole
      # iteration takes longer than it
      case['watchdog'] = draw(st.sampled_from([[150.0, 50.0], [100.0, 61.0], [70.0, 40.0]]))
      case['gen_a'] = dict(case['gen_a'], n=draw(st.integers(4, 6)))
      case['batch_size'] = draw(st.sampled_from([0, 1, 1]))
    elif mode != 'interrupt' and draw(st.integers(0, 4)) == 0:
      case['bad_init'] = [draw(st.sampled_from(['first', 'after'])), draw(st.sampled_from(['raises', 'not_iterable']))]
    if mode == 'reinit':
      case['gen_b'] = draw(gen)
      case['reinit_after'] = draw(st.integers(0, 3))
    elif mode == 'interrupt':
      case['interrupt'] = [draw(st.sampled_from(['stop_prefetch', 'shutdown'])), draw(st.integers(0, 8))]
      if draw(st.booleans()):
        case['gen_a'] = dict(case['gen_a'], stall_at=draw(st.integers(0, 6)))
    return case
  return s()


SCENARIOS = [
    Scenario('prefetch_protocol', run_case, strategy=strat, setup=setup, budget={'quick': 3000, 'thorough': 80000},
             shards={'quick': 12, 'thorough': 16}),
    Scenario('concurrent_init', run_concurrent_init, strategy=strat_concurrent_init, setup=setup, budget={'quick': 1500, 'thorough': 40000},
             shards={'quick': 6, 'thorough': 16}),
    Scenario('client_iteration', run_client_iteration, strategy=strat_client_iteration, setup=setup_real,
             budget={'quick': 200, 'thorough': 3000}, shards={'quick': 4, 'thorough': 16}, nondeterministic=True),
]
