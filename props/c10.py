"""C10 — checkpoint and resume continue exactly where iteration stopped."""
from __future__ import annotations

import copy
import json
import pickle
import threading

from hypothesis import strategies as st

from vlib import targets
from vlib.core import Scenario, Violation, check, crash
from props.c08 import eq
from props.c02 import norm_result

PROPERTY = 'C10'
LEVEL = 'exploration'
RULE = ('history = sequence of next / checkpoint (optionally pickled) / restore(any stored checkpoint) / drain operations over an '
        'iterator of a recoverable source (SequenceDataSource plain, multi-sequence, sharded, nested-sharded; ShardedIterable plain '
        'and sharded; optionally with failing records skipped by ignore_error) or of a pipeline over it (fused or chained named '
        'stages, aggregates in one or both stages, optionally sliced by a feature, optional re-batching operator, num_threads 0..2); '
        'model = index into the uninterrupted run: after restoring checkpoint c the iterator must deliver exactly U[p_c:] (multiset '
        'with threads) and the final aggregate must equal the uninterrupted one; non-trivial = >= 2 generations of restore, or a '
        'restore on a sharded source, or threads >= 1; distinct = distinct canonical case JSON'
        '; also: sources of 65..200 records, a later operator failing on some batches under error skipping (fail_b), failing records skipped by ignore_error, sliced aggregates, three-stage chains, re-batching operators, mapping/tuple iterables, failing reads skipped by the run instead of by the data source, merged sequences ending exactly at shard ends, a checkpoint taken at the very end and restored')
ASSUMPTIONS = [
    'pipelines use exact aggregates (integer sum/count) so the final aggregate comparison is exact',
    'with num_threads > 0 the comparison is on multisets (delivery order is schedule dependent)',
]


def _guard(fn, what):
  try:
    return fn()
  except Violation:
    raise
  except Exception as e:  # pylint: disable=broad-exception-caught
    raise crash(e, what) from e


def col_add1(xs):
  return [x + 1 for x in xs]


def col_double(xs):
  return [2 * x for x in xs]


def col_double_unless_3(xs):
  """col_double that cannot process batches whose first value is 4 or 9 (x = a + 1): a skippable error."""
  if xs[0] % 5 == 4:
    raise ValueError(f'cannot double {xs}')
  return [2 * x for x in xs]


def batch_has_even_head(xs):
  return xs[0] % 2 == 0


def _identity2(a, x):
  return a, x


def make_source(src, n_or_data):
  from ml_metrics._src.chainables import io  # pylint: disable=g-import-not-at-top
  data = n_or_data
  kind = src['kind']
  bad = src.get('bad')      # records whose read fails with a skippable error; the source is then built with ignore_error=True
  if bad:
    from props.c12 import FailingSeq  # pylint: disable=g-import-not-at-top
  if kind == 'seq':
    s = io.SequenceDataSource(FailingSeq(data, bad, 'ValueError'), ignore_error=not src.get('skip_by_pipeline')) if bad else io.SequenceDataSource(data)
  elif kind == 'multi':
    cuts = [0] + sorted(min(c, len(data)) for c in src['cuts']) + [len(data)]
    if bad:
      s = io.SequenceDataSource.from_sequences(
          [FailingSeq(data[a:b], [q - a for q in bad if a <= q < b], 'ValueError') for a, b in zip(cuts, cuts[1:])],
          ignore_error=not src.get('skip_by_pipeline'))
    else:
      s = io.SequenceDataSource.from_sequences([data[a:b] for a, b in zip(cuts, cuts[1:])])
  elif kind == 'iterable':
    s = io.ShardedIterable(data)
  elif kind == 'iterable_dict':
    s = io.ShardedIterable({v: 100 + v for v in data})      # a mapping iterates its keys (and is indexed by key, not position)
  elif kind == 'iterable_tuple':
    s = io.ShardedIterable(tuple(data))
  else:
    raise ValueError(kind)
  for sh in src.get('shards', []):
    i, k = sh[0], sh[1]
    off = sh[2] if len(sh) > 2 else 0
    if off and not kind.startswith('iterable'):
      s = s.shard(i, k, min(off, len(s.shard(i, k))))     # a shard that was itself restored at an offset
    else:
      s = s.shard(i, k)
  return s


def build_pipeline(case, source):
  from ml_metrics._src.chainables import transform  # pylint: disable=g-import-not-at-top
  p = case['pipeline']
  T = transform.TreeTransform
  nt = case.get('num_threads', 0)
  a = T.new(name='A', num_threads=nt).data_source(source).assign('x', fn=col_add1, input_keys='a')
  if p['filter']:
    a = a.filter(batch_has_even_head, input_keys='a')
  if p.get('rebatch'):
    # rows are re-batched on the way: rows read from the source may sit in the re-batching buffer at a checkpoint
    a = a.apply(_identity2, input_keys=('a', 'x'), output_keys=('a', 'x'), batch_size=p['rebatch'])
  if p['agg_a']:
    a = a.aggregate(targets.SumAgg(), input_keys='x', output_keys='sa')
    if p.get('slice'):
      a = a.add_slice('a')        # per-slice aggregation states are created lazily as values show up
  from ml_metrics._src.aggregates import rolling_stats  # pylint: disable=g-import-not-at-top
  if p['shape'] == 'fused':
    if not p['agg_a']:
      a = a.assign('y', fn=col_double_unless_3 if p.get('fail_b') else col_double, input_keys='x').aggregate(
          targets.SumAgg(), input_keys=('x', 'y'), output_keys=('sb', 'nb'))
      if p.get('slice'):
        a = a.add_slice('a')
    if p.get('inplace_agg'):
      # a shipped metric whose state is updated in place (the user aggregates above return new state objects)
      a = a.add_aggregate(fn=rolling_stats.Counter().as_agg_fn(), input_keys='x', output_keys='cx')
    return a
  b = T.new(name='B').assign('y', fn=col_double_unless_3 if p.get('fail_b') else col_double, input_keys='x')
  if p['agg_b']:
    b = b.aggregate(targets.SumAgg(), input_keys='y', output_keys='sb')
    if p.get('slice'):
      b = b.add_slice('a')
    if p.get('inplace_agg'):
      b = b.add_aggregate(fn=rolling_stats.Counter().as_agg_fn(), input_keys='y', output_keys='cy')
  if p.get('third_stage'):
    # three named stages: on restore every stage must be wired to the stage just before it
    c = T.new(name='C').assign('z', fn=col_add1, input_keys='y')
    if p['third_stage'] == 'agg':
      c = c.aggregate(targets.SumAgg(), input_keys='z', output_keys='sc')
    return a.chain(b).chain(c)
  return a.chain(b)


def _canon(x):
  return json.dumps(x, sort_keys=True, default=str)


def run_history(case):
  data = case['data']
  is_pipeline = case.get('pipeline') is not None
  threaded = case.get('num_threads', 0) > 0
  what = f'{case["source"]} pipeline={case.get("pipeline")} threads={case.get("num_threads", 0)} data={data} ops={case["ops"]}'

  def fresh():
    src = make_source(case['source'], copy.deepcopy(data))
    if is_pipeline:
      if case['pipeline'].get('fail_b') or case['source'].get('skip_by_pipeline'):
        # a later operator fails on some batches and the run skips them: a restored run keeps skipping them
        return build_pipeline(case, src).make().iterate(ignore_error=True)
      return build_pipeline(case, src).make().iterate()
    return iter(src)
  it0 = _guard(fresh, f'{what}: building')

  def drain_all(it):
    out = []
    while True:
      try:
        out.append(next(it))
      except StopIteration as e:
        return out, e.value
  U, R0 = _guard(lambda: drain_all(it0), f'{what}: uninterrupted run')
  A = norm_result(it0.agg_result) if is_pipeline and it0.agg_result is not None else None
  it = _guard(fresh, f'{what}: building')
  p = 0
  delivered = []        # with threads: what this logical run has delivered so far (multiset bookkeeping)
  ckpts = []
  generation = 0
  max_generation = 0
  for step, op in enumerate(case['ops']):
    w = f'{what}: step {step} {op} (position {p})'
    if op[0] == 'next':
      for _ in range(op[1]):
        try:
          x = next(it)
        except StopIteration:
          if threaded:
            check(sorted(map(_canon, delivered)) == sorted(map(_canon, U)), 'resume-loses-or-repeats-elements',
                  f'{w}: exhausted after delivering {delivered}, uninterrupted run gives {U}')
          else:
            check(p == len(U), 'resume-loses-or-repeats-elements', f'{w}: exhausted at position {p} of {len(U)}')
          break
        except Exception as e:  # pylint: disable=broad-exception-caught
          raise crash(e, w) from e
        if threaded:
          delivered.append(x)
        else:
          check(p < len(U), 'resume-loses-or-repeats-elements', f'{w}: delivered {x!r} beyond the end of {U}')
          check(eq(x, U[p]), 'resume-loses-or-repeats-elements', f'{w}: delivered {x!r}, uninterrupted run has {U[p]!r} there')
        p += 1
    elif op[0] == 'ckpt':
      state = _guard(lambda: it.state, f'{w}: reading state')
      if op[1]:
        state = _guard(lambda: pickle.loads(pickle.dumps(state)), f'{w}: pickling state')
      ckpts.append((state, p, list(delivered), generation))
    elif op[0] == 'restore':
      if not ckpts:
        continue
      state, p, d, g = ckpts[op[1] % len(ckpts)]
      delivered = list(d)
      old = it
      it = _guard(lambda: old.from_state(state), f'{w}: from_state')
      if threaded and hasattr(old, 'maybe_stop'):
        old.maybe_stop()
      generation = g + 1
      max_generation = max(max_generation, generation)
    elif op[0] == 'drain':
      rest, returned = _guard(lambda: drain_all(it), f'{w}: draining')
      if R0 is not None and hasattr(R0, 'agg_result') and p < len(U) + 1 and not getattr(it, '_verif_drained', False):
        # the uninterrupted run hands the final AggregateResult to its consumer as the iterator's return value
        check(returned is not None and hasattr(returned, 'agg_result'), 'final-aggregate-not-returned-after-resume',
              f'{w}: iterator returned {returned!r}, the uninterrupted run returns {R0!r}')
        check(norm_result(returned.agg_result) == norm_result(R0.agg_result), 'final-aggregate-differs-after-resume',
              f'{w}: returned aggregate {returned.agg_result!r}, uninterrupted {R0.agg_result!r}')
      try:
        it._verif_drained = True
      except AttributeError:
        pass
      if threaded:
        delivered += rest
        check(sorted(map(_canon, delivered)) == sorted(map(_canon, U)), 'resume-loses-or-repeats-elements',
              f'{w}: before checkpoint + after restore = {delivered}, uninterrupted run gives {U}')
      else:
        check(eq(rest, U[p:]), 'resume-loses-or-repeats-elements', f'{w}: drained {rest!r}, uninterrupted run continues with {U[p:]!r}')
      p = len(U)
      if A is not None:
        got = norm_result(_guard(lambda: it.agg_result, f'{w}: agg_result'))
        check(got == A, 'final-aggregate-differs-after-resume', f'{w}: aggregate {got!r}, uninterrupted run {A!r}')
  if threaded and hasattr(it, 'maybe_stop'):
    it.maybe_stop()
  sharded = bool(case['source'].get('shards'))
  cl = [f'source-{case["source"]["kind"]}', f'gen-{min(max_generation, 3)}'] + (['sharded'] if sharded else []) + (
      [f'pipeline-{case["pipeline"]["shape"]}'] if is_pipeline else []) + ([f'threads-{case["num_threads"]}'] if threaded else [])
  return {'nontrivial': max_generation >= 2 or (max_generation >= 1 and sharded) or (threaded and max_generation >= 1), 'classes': cl}


def _ops(draw, maxops):
  op = st.one_of(st.tuples(st.just('next'), st.integers(1, 4)).map(list), st.tuples(st.just('next'), st.integers(1, 2)).map(list),
                 st.tuples(st.just('ckpt'), st.booleans()).map(list), st.tuples(st.just('ckpt'), st.booleans()).map(list),
                 st.tuples(st.just('restore'), st.integers(0, 5)).map(list), st.tuples(st.just('restore'), st.integers(0, 5)).map(list),
                 st.just(['drain']))
  ops = draw(st.lists(op, min_size=2, max_size=maxops))
  if draw(st.integers(0, 4)) == 0:
    # a checkpoint taken exactly at the end of the (shard of the) source, restored: nothing may follow
    ops += [['drain'], ['ckpt', draw(st.booleans())], ['restore', len([o for o in ops if o[0] == 'ckpt'])]]
  return ops + [['drain']]


def _source(draw, n, allow_iterable=True, hashable=False):
  kind = draw(st.sampled_from(['seq', 'multi'] + (['iterable', 'iterable_tuple'] if allow_iterable else []) + (
      ['iterable_dict'] if allow_iterable and hashable else [])))
  src = {'kind': kind}
  if kind == 'multi':
    src['cuts'] = sorted(draw(st.lists(st.integers(0, n), max_size=3)))
  depth = draw(st.sampled_from([0, 0, 1, 2]))
  shards = []
  for _ in range(depth):
    k = draw(st.integers(1, 3))
    shards.append([draw(st.integers(0, k - 1)), k, draw(st.sampled_from([0, 0, 1, 2]))])
  if shards:
    src['shards'] = shards
    if kind == 'multi' and n and draw(st.booleans()):
      # the merged sub-sequences end exactly where the first-level shards end (a shard's last element is a sequence's last)
      k = shards[0][1]
      src['cuts'] = sorted({(n * i) // k for i in range(1, k)} | {-(-n * i // k) for i in range(1, k)}) or src['cuts']
  if not kind.startswith('iterable') and n and draw(st.integers(0, 2)) == 0:
    src['bad'] = sorted(set(draw(st.lists(st.integers(0, n - 1), min_size=1, max_size=3))))
  return src


def strat_sources(tier):
  maxops = 12 if tier == 'quick' else 30

  @st.composite
  def s(draw):
    n = draw(st.integers(0, 14))
    if draw(st.integers(0, 9)) == 0:
      n = draw(st.sampled_from([65, 66, 129, 140, 200]))     # longer than the sources' read-ahead window (2**6 records)
    return {'source': _source(draw, n, hashable=True), 'data': list(range(n)), 'ops': _ops(draw, maxops)}
  return s()


def _pipeline_case(draw, maxops, threads):
  nb = draw(st.integers(0, 8))
  data = [{'a': [draw(st.integers(0, 9)) for _ in range(draw(st.integers(1, 3)))]} for _ in range(nb)]
  shape = draw(st.sampled_from(['fused', 'chained']))
  pipe = {'shape': shape, 'filter': draw(st.booleans()), 'agg_a': draw(st.booleans()), 'agg_b': draw(st.booleans()),
          'inplace_agg': draw(st.booleans()), 'slice': draw(st.booleans()),
          'rebatch': draw(st.sampled_from([0, 0, 0, 1, 2, 3]))}
  if shape == 'chained' and not (pipe['agg_a'] or pipe['agg_b']):
    pipe['agg_b'] = True
  if shape == 'chained':
    pipe['third_stage'] = draw(st.sampled_from([None, None, 'plain', 'agg']))
  if not pipe['rebatch'] and draw(st.integers(0, 3)) == 0:
    pipe['fail_b'] = True
  source = _source(draw, nb)
  if source.get('bad') and draw(st.integers(0, 2)) > 0:
    # the failing reads are skipped by the *run* (iterate(ignore_error=True)), the data source itself does not skip
    source['skip_by_pipeline'] = True
  return {'source': source, 'data': data, 'pipeline': pipe, 'num_threads': draw(st.sampled_from(threads)),
          'ops': _ops(draw, maxops)}


def strat_pipelines(tier):
  maxops = 10 if tier == 'quick' else 25

  @st.composite
  def s(draw):
    return _pipeline_case(draw, maxops, [0])
  return s()


def strat_threaded(tier):
  maxops = 8 if tier == 'quick' else 16

  @st.composite
  def s(draw):
    return _pipeline_case(draw, maxops, [1, 2])
  return s()


def known_threaded_restore(scenario, case, v):
  return (scenario == 'pipelines_threaded' and case.get('num_threads', 0) > 0
          and v.kind in ('resume-loses-or-repeats-elements', 'final-aggregate-differs-after-resume')
          and any(o[0] == 'restore' for o in case['ops']))


def known_rebatch_buffer(scenario, case, v):
  """A re-batching operator (batch_size=) holds rows it has read but not yet emitted; the captured state is the position of
  the source, so a restore drops the buffered rows. Only cases where rows can be buffered at all (some input batch whose size
  differs from the target) and a restore happens are excluded."""
  p = case.get('pipeline') or {}
  return (bool(p.get('rebatch')) and any(len(b['a']) != p['rebatch'] for b in case['data'])
          and any(o[0] == 'restore' for o in case['ops'])
          and v.kind in ('resume-loses-or-repeats-elements', 'final-aggregate-differs-after-resume'))


KNOWN = {'F-C10-threaded-restore-skips-prefetched': known_threaded_restore,
         'F-C10-rebatch-buffer-lost-on-restore': known_rebatch_buffer}

SCENARIOS = [
    Scenario('sources', run_history, strategy=strat_sources, budget={'quick': 2500, 'thorough': 40000},
             shards={'quick': 4, 'thorough': 16}),
    Scenario('pipelines', run_history, strategy=strat_pipelines, budget={'quick': 1500, 'thorough': 25000},
             shards={'quick': 6, 'thorough': 16}),
    Scenario('pipelines_threaded', run_history, strategy=strat_threaded, budget={'quick': 300, 'thorough': 4000},
             shards={'quick': 6, 'thorough': 16}, nondeterministic=True),
]
