"""C06 — distributed runs survive worker timeouts and deaths: no lost or doubled work."""
from __future__ import annotations

import collections
import queue
import time

from hypothesis import strategies as st

from vlib import dist, targets
from vlib.core import Scenario, Violation, check, crash
from props.c02 import norm_result

PROPERTY = 'C06'
LEVEL = 'fault_enumeration'
RULE = ('fault plan = for every worker but one (the usable one), per remote method (maybe_make / init_generator / '
        'next_batch_from_generator), a generated list of actions applied to its i-th call: ok | deadline exceeded before delivery '
        '| deadline exceeded after the handler ran | abrupt death | graceful death (unregistered) | restart as a fresh process; '
        'plus application errors inside tasks/pipelines and plans that exceed the retry budget; crossed with as_completed over '
        '1..8 tasks and sharded_pipelines_as_iterator over generated pipelines (1..3 workers, 1..6 shards, batch and prefetch '
        'sizes); oracle: every task result exactly once / every output batch at least once and exactly one final aggregate equal '
        'to the fault-free in-process result; application errors surface as errors; exhausted budget => TimeoutError; afterwards '
        'no worker is acquired; a 120 s watchdog catches hangs; non-trivial = a fault hit an issued call and the run still had to '
        'complete; distinct = distinct canonical case JSON'
        '; also: workers that serve one or two tasks and then go away under a later one, tasks handed over as Task objects (also blocking ones), an explicit retry budget that is used up but not exceeded (within_budget), fault action presumed_dead (reply parked, worker unregistered, reply delivered after a generated delay or at the moment the caller gives the worker up), every worker timing out 29..50 times on initialisation, as_completed(ignore_failures=True), a worker dying while acquired followed by a task error (ownership asked of every worker, dead ones too)')
ASSUMPTIONS = [
    'in-process fake transport: an unreachable or dead server fails a call immediately with deadline exceeded (code 4)',
    'one worker carries no faults (the property\'s "one worker stays usable"); plans that must complete use the default '
    '(unbounded) retry budget because a dead but not yet stale worker burns retries quickly',
    'real OS threads: oracles are schedule independent; hangs and failures are re-run before being reported',
]
# presumed_dead: the reply is delayed; meanwhile the worker is pronounced dead (unregistered), then it answers after all
ACTIONS = ['ok', 'deadline_before', 'deadline_after', 'die', 'die_graceful', 'restart', 'presumed_dead']


def setup():
  from ml_metrics._src.chainables import courier_server  # pylint: disable=g-import-not-at-top
  courier_server.CourierServer.__del__ = lambda self: None


class answer_when_given_up:
  """Schedule injection for 'presumed_dead': the parked reply of a worker is delivered at the very moment its client
  answers "not alive" (the narrowest window between the caller's `done()` check and what it does about a dead worker)."""

  def __enter__(self):
    import courier  # pylint: disable=g-import-not-at-top
    from ml_metrics._src.utils import courier_utils  # pylint: disable=g-import-not-at-top
    # Task.is_alive is what the retry loops ask right after they found the task's call not done
    self.cls = courier_utils.Task
    self.orig = self.cls.is_alive
    orig = self.orig

    def is_alive(task):
      alive = orig.fget(task)
      if not alive and courier.release_address(task.worker.address):
        time.sleep(0.01)      # ... and the client's event loop gets to process the answer before the caller acts
      return alive
    self.cls.is_alive = property(is_alive)
    return self

  def __exit__(self, *exc):
    self.cls.is_alive = self.orig


def install_plan(cl, plan, plan_delay=0.05):
  """plan: {worker index: {method: [actions]}}; translates die_graceful and restart into transport hooks."""
  import courier  # pylint: disable=g-import-not-at-top
  from ml_metrics._src.utils import courier_utils  # pylint: disable=g-import-not-at-top
  for wi, methods in plan.items():
    addr = cl.addrs[int(wi)]
    for m, actions in methods.items():
      acts = []
      for a in actions:
        acts.append('die' if a == 'die_graceful' else ('hold' if a == 'presumed_dead' else a))
      courier.PLANS[(addr, m)] = acts
  graceful = {cl.addrs[int(wi)] for wi, ms in plan.items() for acts in ms.values() if 'die_graceful' in acts}
  slow = any('presumed_dead' in acts for ms in plan.values() for acts in ms.values())
  # a gracefully dying worker tells its clients (heartbeat is_alive=False) before it goes away
  orig_pop = None

  def watcher():
    seen = set()
    held = {}       # id(call entry) -> time the reply was parked
    while not cl.done:
      for c in list(courier.CALLS):
        if c[2] == 'die' and c[0] in graceful and c[0] not in seen:
          seen.add(c[0])
          courier_utils.worker_registry().unregister(c[0])
        if c[2] == 'hold' and id(c) not in held:
          # the worker is slow, not dead: its clients give it up (stale heartbeat) ...
          held[id(c)] = time.time()
          courier_utils.worker_registry().unregister(c[0])
      # ... and it answers after all, once the run had time to move its work elsewhere
      if courier.HELD and held and time.time() - min(held.values()) > cl.answer_after:
        try:
          courier.release(0)
        except IndexError:
          pass
      time.sleep(0.002)
  import threading  # pylint: disable=g-import-not-at-top
  cl.done = False
  cl.answer_after = plan_delay
  if graceful or slow:
    threading.Thread(target=watcher, daemon=True).start()
  courier.RESTART_HOOK = cl.restart


# ------------------------------------------------------------------------------------------------ as_completed
def run_tasks(case):
  import courier  # pylint: disable=g-import-not-at-top
  from ml_metrics._src.chainables import lazy_fns as lf, orchestrate  # pylint: disable=g-import-not-at-top
  courier.reset()
  dist.seed_random(case.get('rseed', 0))
  what = f'{case}'
  cl = dist.Cluster(case['workers'], tag='t')
  at_give_up = case.get('answer_at') == 'give_up'
  install_plan(cl, case['plan'], 1000.0 if at_give_up else case.get('answer_after', 0.05))
  tasks = [lf.trace(targets.raise_value_error)(f'task {t[1]}') if t[0] == 'fail' else lf.trace(targets.counted_add)(t[1], 1000)
           for t in case['tasks']]
  form = case.get('task_form', 'lazy')       # tasks handed over as lazy calls, as Task objects, or as blocking Task objects
  if form != 'lazy':
    from ml_metrics._src.utils import courier_utils  # pylint: disable=g-import-not-at-top
    tasks = [courier_utils.Task.new(t, blocking=form == 'blocking') for t in tasks]
  out = []

  def body():
    for r in (orchestrate.as_completed(cl.pool, tasks, ignore_failures=True) if case.get('ignore_failures')
              else orchestrate.as_completed(cl.pool, tasks)):
      out.append(r)
  import contextlib  # pylint: disable=g-import-not-at-top
  try:
    with (answer_when_given_up() if at_give_up else contextlib.nullcontext()):
      status, res = dist.run_with_watchdog(body, 120)
    acquired = [w.address for w in cl.pool.all_workers if w.is_locked(cl.pool)]    # dead ones too
    hit = courier.STATS['faults_hit']
  finally:
    cl.done = True
    cl.stop()
  check(status != 'hang', 'hang', f'{what}: as_completed still running after 120 s')
  fails = any(t[0] == 'fail' for t in case['tasks'])
  want = sorted(t[1] + 1000 for t in case['tasks'] if t[0] == 'ok')
  if fails and not case.get('ignore_failures'):
    check(status == 'error', 'task-error-swallowed', f'{what}: a task raises but as_completed finished with {out}')
    cnt = collections.Counter(out)
    check(all(v == 1 for v in cnt.values()) and all(x in want for x in out), 'result-doubled-or-invented', f'{what}: yielded {out}')
  else:
    if status == 'error':
      raise crash(res, what)
    check(sorted(out) == want, 'task-result-lost-or-doubled', f'{what}: yielded {sorted(out)}, want each of {want} exactly once')
  check(not acquired, 'workers-left-acquired', f'{what}: {acquired}')
  return {'nontrivial': hit >= 1 and (not fails or bool(case.get('ignore_failures'))),
          'classes': ['as_completed', f'workers-{case["workers"]}'] + (['fault-hit'] if hit else []) + (['app-error'] if fails else []) + (
              ['ignore-failures'] if case.get('ignore_failures') else [])}


def _plan(draw, workers, methods, maxlen):
  plan = {}
  usable = draw(st.integers(0, workers - 1))
  for wi in range(workers):
    if wi == usable:
      continue
    ms = {}
    for m in methods:
      acts = draw(st.lists(st.sampled_from(ACTIONS + ['ok', 'ok']), max_size=maxlen))
      if any(a != 'ok' for a in acts):
        ms[m] = acts
    if ms:
      plan[str(wi)] = ms
  return plan


def strat_tasks(tier):
  @st.composite
  def s(draw):
    workers = draw(st.sampled_from([1, 2, 2, 3]))
    tasks = draw(st.lists(st.tuples(st.sampled_from(['ok', 'ok', 'ok', 'ok', 'ok', 'ok', 'ok', 'fail']), st.integers(0, 7)).map(list),
                          min_size=1, max_size=8, unique_by=lambda t: t[1]))
    case = {'workers': workers, 'tasks': tasks, 'plan': _plan(draw, workers, ['maybe_make'], 5), 'rseed': draw(st.integers(0, 10**6)),
            'answer_after': draw(st.sampled_from([0.005, 0.02, 0.05])), 'answer_at': draw(st.sampled_from(['later', 'later', 'give_up']))}
    if workers >= 2 and draw(st.integers(0, 3)) == 0:
      # workers that serve one or two tasks and then go away under a later one (often the last task of the run, while the
      # other workers have nothing left to do)
      usable = draw(st.integers(0, workers - 1))
      case['plan'] = {str(w): {'maybe_make': ['ok'] * draw(st.sampled_from([1, 1, 2])) + [draw(st.sampled_from(['die', 'die_graceful', 'presumed_dead', 'deadline_after']))]}
                      for w in range(workers) if w != usable}
      if draw(st.booleans()):
        case['tasks'] = [['ok', i] for i in range(workers + 1)]      # one task each and one more for whoever is free first
    if workers >= 2 and draw(st.integers(0, 5)) == 0:
      # a worker goes away while it is acquired, and later the run ends through a task error: nothing may stay acquired
      usable = draw(st.integers(0, workers - 1))
      case['plan'] = {str(w): {'maybe_make': ['ok'] * draw(st.integers(0, 1)) + [draw(st.sampled_from(['die', 'die_graceful']))]}
                      for w in range(workers) if w != usable}
      n_ok = draw(st.integers(workers, workers + 4))
      case['tasks'] = [['ok', i] for i in range(n_ok)] + [['fail', n_ok]]
    case['task_form'] = draw(st.sampled_from(['lazy', 'lazy', 'task', 'blocking']))
    if draw(st.integers(0, 3)) == 0:
      # failures of the tasks themselves are skipped (ignore_failures=True): time-outs and deaths are still retried, so every
      # task that does not raise is still delivered exactly once
      case['ignore_failures'] = True
    if case['task_form'] == 'blocking':
      case['answer_at'] = 'later'      # a blocking submission waits for the answer itself: nobody polls the worker meanwhile
      # ... so a call that is never answered would wait forever; a real transport ends the pending calls of a dead server with
      # an error or the call deadline, which is what the plan gives a blocking submission instead of a silent death
      case['plan'] = {w: {m: ['deadline_before' if a in ('die', 'die_graceful', 'restart') else a for a in acts] for m, acts in ms.items()}
                      for w, ms in case['plan'].items()}
    return case
  return s()


# ------------------------------------------------------------------------------------------------ sharded pipelines
def run_sharded(case):
  import courier  # pylint: disable=g-import-not-at-top
  from ml_metrics._src.chainables import orchestrate, transform  # pylint: disable=g-import-not-at-top
  courier.reset()
  dist.seed_random(case.get('rseed', 0))
  data, shape = case['data'], case['shape']
  what = f'{ {k: v for k, v in case.items() if k != "data"} } data={data}'
  poison = bool(shape.get('poison')) and any(x in shape['poison'] for b in data for x in b['a'])
  want_out, want_agg = ([], None) if poison else dist.in_process(data, shape)
  cl = dist.Cluster(case['workers'], prefetch_size=case['prefetch_size'], iterate_batch_size=case['iterate_batch_size'], tag='s')
  at_give_up = case.get('answer_at') == 'give_up'
  install_plan(cl, case['plan'], 1000.0 if at_give_up else case.get('answer_after', 0.05))
  rq = queue.SimpleQueue()
  out = []
  kw = {}
  if case.get('retry_threshold') is not None:
    kw['retry_threshold'] = case['retry_threshold']

  def body():
    for x in orchestrate.sharded_pipelines_as_iterator(cl.pool, dist.define_pipeline, data, shape, result_queue=rq,
                                                       num_shards=case['shards'], **kw):
      out.append(x)
  import contextlib  # pylint: disable=g-import-not-at-top
  try:
    with (answer_when_given_up() if at_give_up else contextlib.nullcontext()):
      status, res = dist.run_with_watchdog(body, 120)
    results = dist.drain_queue(rq, wait_first=5.0 if status == 'ok' else 0.5)
    acquired = [w.address for w in cl.pool.all_workers if w.is_locked(cl.pool)]    # dead ones too
    hit = courier.STATS['faults_hit']
  finally:
    cl.done = True
    cl.stop()
  check(status != 'hang', 'hang', f'{what}: sharded run still going after 120 s')
  budget = case.get('retry_threshold') if not case.get('within_budget') else None
  if poison:
    check(status == 'error', 'application-error-swallowed', f'{what}: the pipeline raises on a worker but the run finished; results={results!r}')
    return {'nontrivial': True, 'classes': ['sharded', 'app-error']}
  if budget is not None:
    # every worker times out on its first 6 generator initialisations and the budget is <= 3: the documented outcome of an
    # exhausted retry budget is TimeoutError (never a silent short result, never an endless retry)
    check(status == 'error' and isinstance(res, TimeoutError), 'exhausted-budget-not-reported',
          f'{what}: finished with status={status} {res!r} after {hit} injected timeouts (budget {budget})')
    return {'nontrivial': True, 'classes': ['sharded', 'budget-exhausted']}
  if status == 'error':
    raise crash(res, what)
  got, need = collections.Counter(map(dist.canon, out)), collections.Counter(map(dist.canon, want_out))
  missing = [k for k in need if got[k] < 1]
  extra = [k for k in got if k not in need]
  check(not missing and not extra, 'output-batch-lost-or-invented', f'{what}: missing {missing[:3]}, unexpected {extra[:3]}')
  aggs = [r for r in results if isinstance(r, transform.AggregateResult)]
  check(len(results) == 1 and len(aggs) == 1, 'not-exactly-one-final-aggregate', f'{what}: result queue holds {results!r}')
  check(norm_result(aggs[0].agg_result) == norm_result(want_agg), 'shard-state-lost-or-merged-twice',
        f'{what}: aggregate {norm_result(aggs[0].agg_result)}, fault-free in-process {norm_result(want_agg)}')
  check(not acquired, 'workers-left-acquired', f'{what}: {acquired}')
  dup = sum(got.values()) - sum(need.values())
  return {'nontrivial': hit >= 1, 'classes': ['sharded', f'workers-{case["workers"]}'] + (['fault-hit'] if hit else []) + (
      ['batches-redelivered'] if dup > 0 else [])}


def strat_sharded(tier):
  @st.composite
  def s(draw):
    workers = draw(st.sampled_from([1, 2, 2, 3]))
    nb = draw(st.integers(0, 10))
    data = [{'a': [draw(st.integers(0, 9)) for _ in range(draw(st.integers(1, 3)))]} for _ in range(nb)]
    mode = draw(st.sampled_from(['faults', 'faults', 'faults', 'faults', 'app_error', 'budget', 'many_timeouts', 'within_budget']))
    shape = {'filter': draw(st.booleans()), 'second_agg': draw(st.booleans()), 'chain2': draw(st.sampled_from([False, False, True]))}
    case = {'data': data, 'shape': shape, 'workers': workers, 'shards': draw(st.sampled_from([1, 2, 3, 4, 6])),
            'iterate_batch_size': draw(st.sampled_from([1, 2, 3])), 'prefetch_size': draw(st.integers(1, 3)),
            'rseed': draw(st.integers(0, 10**6))}
    if mode == 'app_error':
      shape['poison'] = [draw(st.integers(0, 9))]
      shape['chain2'] = False
      case['plan'] = {}
    elif mode == 'many_timeouts':
      # every worker times out on its first initialisations, in total more often than any built-in default budget: with the
      # default (practically unbounded) retry budget the run still has to complete
      case['workers'] = max(workers, 2)
      per = draw(st.sampled_from([29, 30, 31, 35, 50]))      # every worker: 2 x 30 = 60 timeouts in total, or a few more or less
      case['plan'] = {str(w): {'init_generator': ['deadline_before'] * per} for w in range(case['workers'])}
    elif mode == 'within_budget':
      # an explicit small retry budget and at most that many timeouts in the whole run (exactly that many when every planned
      # fault is hit): the budget is used up but not exceeded, the run completes
      n = draw(st.integers(1, 3))
      case['retry_threshold'], case['within_budget'] = n, True
      owners = [draw(st.integers(0, workers - 1)) for _ in range(n)]
      case['plan'] = {str(w): {'init_generator': ['deadline_before'] * owners.count(w)} for w in set(owners)}
    elif mode == 'budget':
      # every worker times out on its first calls and the budget is tiny
      case['plan'] = {str(w): {'init_generator': ['deadline_before'] * 6} for w in range(workers)}
      case['retry_threshold'] = draw(st.integers(0, 3))
    else:
      case['plan'] = _plan(draw, workers, ['init_generator', 'next_batch_from_generator'], 6)
      case['answer_after'] = draw(st.sampled_from([0.005, 0.02, 0.05]))
      case['answer_at'] = draw(st.sampled_from(['later', 'later', 'give_up']))
    return case
  return s()


SCENARIOS = [
    Scenario('as_completed_faults', run_tasks, strategy=strat_tasks, setup=setup, budget={'quick': 250, 'thorough': 3000},
             shards={'quick': 8, 'thorough': 16}, nondeterministic=True, confirm_tries=25),
    Scenario('sharded_faults', run_sharded, strategy=strat_sharded, setup=setup, budget={'quick': 300, 'thorough': 4000},
             shards={'quick': 8, 'thorough': 16}, nondeterministic=True, confirm_tries=25),
]
