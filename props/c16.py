"""C16 — fault-free distributed execution equals in-process execution."""
from __future__ import annotations

import collections
import queue
import time

from hypothesis import strategies as st

from vlib import dist, targets
from vlib.core import Scenario, Violation, check, crash
from props.c02 import norm_result

PROPERTY = 'C16'
LEVEL = 'exploration'
RULE = ('sharded: a generated pipeline (filter on/off, one or two stacked exact aggregates, num_threads) over 0..10 batches is run '
        'with sharded_pipelines_as_iterator on 1..3 prefetching workers x 1..6 shards (incl. more shards than workers and than '
        'batches) x iterate_batch_size x prefetch_size x with_batch_output; interleaved: a two-stage named chain is run with '
        'run_pipeline_interleaved, optionally with a worker pool on the second stage fed by a master server through a '
        'RemoteIteratorQueue; merge contract: merge_states(states[:j], strict_states_cnt=n); oracle = the same pipeline run in one '
        'process: equal multiset of output batches, equal aggregate, exactly one final AggregateResult; fewer states than expected '
        '=> ValueError; non-trivial = >= 2 workers, >= 2 shards and >= 2 batches per shard (sharded) / a remote stage '
        '(interleaved); distinct = distinct canonical case JSON'
        "; also: strict merge over two aggregating stages (list and stream), a generated polling delay of the pool's output queue, 130..200 batches, placeholder counts without batch output, the same definition run twice on the same workers, one-shot sources, hashable definition arguments")
ASSUMPTIONS = [
    'in-process fake transport; real OS threads and asyncio loops: oracles are schedule independent, a 90 s watchdog catches hangs '
    '(re-run before reporting)',
    'exact integer aggregates (SumAgg, Counter)',
]


def setup():
  from ml_metrics._src.chainables import courier_server, courier_worker  # pylint: disable=g-import-not-at-top
  courier_server.CourierServer.__del__ = lambda self: None
  dist.perturb_polling(courier_worker)


def run_sharded(case):
  import courier  # pylint: disable=g-import-not-at-top
  from ml_metrics._src.chainables import orchestrate, transform  # pylint: disable=g-import-not-at-top
  courier.reset()
  dist.seed_random(case.get('rseed', 0))
  dist.PERTURB['empty_delay'] = case.get('poll_delay', 0.0)
  data, shape = case['data'], case['shape']
  what = f'{ {k: v for k, v in case.items() if k != "data"} } data={data}'
  want_out, want_agg = dist.in_process(data, shape)
  cl = dist.Cluster(case['workers'], prefetch_size=case['prefetch_size'], iterate_batch_size=case['iterate_batch_size'])
  from ml_metrics._src.chainables import lazy_fns  # pylint: disable=g-import-not-at-top
  lazy_fns.clear_cache()
  runs = case.get('runs', 1)      # the same definition run again on the same pool and workers
  definition = (dist.define_pipeline, data, shape)
  if case.get('hashable_args'):   # the definition's arguments as plain tuples
    definition = (dist.define_pipeline_h, tuple(tuple(b['a']) for b in data), tuple(sorted(shape.items())))
  try:
    for run in range(runs):
      rq = queue.SimpleQueue()
      out = []

      def body():
        for x in orchestrate.sharded_pipelines_as_iterator(cl.pool, *definition, result_queue=rq,  # pylint: disable=cell-var-from-loop
                                                           num_shards=case['shards'], with_batch_output=case['with_batch_output']):
          out.append(x)  # pylint: disable=cell-var-from-loop
      status, res = dist.run_with_watchdog(body, 90)
      results = dist.drain_queue(rq) if status == 'ok' else []
      acquired = [w.address for w in cl.pool.all_workers if w.is_locked(cl.pool)]    # dead ones too
      w = what if runs == 1 else f'{what} (run {run + 1} of {runs} on the same workers)'
      check(status != 'hang', 'hang', f'{w}: sharded run still going after 90 s')
      if status == 'error':
        raise crash(res, w)
      if case['with_batch_output']:
        check(sorted(map(dist.canon, out)) == sorted(map(dist.canon, want_out)), 'distributed-output-differs',
              f'{w}: distributed batches {sorted(map(dist.canon, out))}, in-process {sorted(map(dist.canon, want_out))}')
      else:
        # without batch output every batch is still reported, as a None placeholder (like iterate(with_result=False))
        check(len(out) == len(want_out) and all(x is None for x in out), 'distributed-output-differs',
              f'{w}: {len(out)} placeholders {out[:5]!r}..., the in-process run has {len(want_out)} batches')
      aggs = [r for r in results if isinstance(r, transform.AggregateResult)]
      check(len(results) == 1 and len(aggs) == 1, 'not-exactly-one-final-aggregate', f'{w}: result queue holds {results!r}')
      check(norm_result(aggs[0].agg_result) == norm_result(want_agg), 'distributed-aggregate-differs',
            f'{w}: distributed aggregate {norm_result(aggs[0].agg_result)}, in-process {norm_result(want_agg)}')
      check(not acquired, 'workers-left-acquired', f'{w}: {acquired}')
  finally:
    cl.stop()
  per_shard = len(data) // max(case['shards'], 1)
  return {'nontrivial': case['workers'] >= 2 and case['shards'] >= 2 and per_shard >= 2,
          'classes': ['sharded', f'workers-{case["workers"]}', f'shards-{min(case["shards"], 4)}'] + (
              ['shards>workers'] if case['shards'] > case['workers'] else []) + (['shards>batches'] if case['shards'] > len(data) else [])}


def _data(draw, maxb):
  nb = draw(st.one_of(st.integers(0, maxb), st.integers(4, maxb)))
  return [{'a': [draw(st.integers(0, 9)) for _ in range(draw(st.integers(1, 3)))]} for _ in range(nb)]


def strat_sharded(tier):
  @st.composite
  def s(draw):
    data = _data(draw, 12)
    if draw(st.integers(0, 19)) == 0:
      # shards longer than the data source's read-ahead (2**6 records) and not a multiple of it
      nb = draw(st.sampled_from([130, 150, 200]))
      data = [{'a': [i % 10]} for i in range(nb)]
    return {'data': data, 'shape': {'filter': draw(st.booleans()), 'second_agg': draw(st.booleans()),
                                               'num_threads': draw(st.sampled_from([0, 0, 0, 2])),
                                               'chain2': draw(st.sampled_from([False, False, True])),
                                               'oneshot': draw(st.booleans())},
            'runs': draw(st.sampled_from([1, 1, 1, 2])), 'hashable_args': draw(st.booleans()),
            'workers': draw(st.sampled_from([1, 2, 2, 3])), 'shards': draw(st.sampled_from([1, 2, 2, 3, 3, 4, 6])),
            'iterate_batch_size': draw(st.sampled_from([1, 1, 2, 3])), 'prefetch_size': draw(st.integers(1, 3)),
            'with_batch_output': draw(st.sampled_from([True, True, False])), 'rseed': draw(st.integers(0, 10**6)),
            # schedule perturbation: how long the pool's polling loop lingers after finding its output queue empty
            'poll_delay': draw(st.sampled_from([0.0, 0.0, 0.002, 0.01]))}
  return s()


# ------------------------------------------------------------------------------------------------ interleaved stages
def stage_pipeline(shape):
  from ml_metrics._src.chainables import transform  # pylint: disable=g-import-not-at-top
  T = transform.TreeTransform
  a = T.new(name='A').assign('x', fn=dist.col_add1, input_keys='a')
  if shape['agg_a']:
    a = a.aggregate(targets.SumAgg(), input_keys='x', output_keys='sa')
  b = T.new(name='B').assign('y', fn=dist.col_double, input_keys='x')
  if shape['filter']:
    b = b.filter(dist.head_even, input_keys='a')
  b = b.aggregate(targets.SumAgg(), input_keys=('x', 'y'), output_keys=('sb', 'nb'))
  return a, b


def run_interleaved(case):
  import courier  # pylint: disable=g-import-not-at-top
  from ml_metrics._src.chainables import courier_server, io, orchestrate, transform  # pylint: disable=g-import-not-at-top
  from ml_metrics._src.utils import courier_utils  # pylint: disable=g-import-not-at-top
  courier.reset()
  dist.seed_random(case.get('rseed', 0))
  data, shape = case['data'], case['shape']
  what = f'{ {k: v for k, v in case.items() if k != "data"} } data={data}'
  a, b = stage_pipeline(shape)
  T = transform.TreeTransform
  src = T.new(name='S').data_source(io.SequenceDataSource(list(data)))
  full = src.chain(a).chain(b)
  it = T.new(name='S').data_source(io.SequenceDataSource(list(data))).chain(a).chain(b).make().iterate()
  want_out = list(it)
  want_agg = it.agg_result
  resources, cl, master = {}, None, None
  if case['remote_workers']:
    cl = dist.Cluster(case['remote_workers'], tag='iw')
    master = courier_server.CourierServer(f'master{next(dist._uid)}', auto_shutdown_secs=10200 + next(dist._uid))  # pylint: disable=protected-access
    courier_utils.worker_registry().register(master.address, time.time())
    resources['B'] = orchestrate.RunnerResource(worker_pool=cl.pool, buffer_size=case['buffer'], num_workers=case['remote_workers'])
  out, info = [], {}

  def body():
    with orchestrate.run_pipeline_interleaved(full, master_server=master, resources=resources,
                                              aggregate_only=case['aggregate_only']) as runner:
      info['runner'] = runner
      for x in runner.result_queue:
        out.append(x)
    info['returned'] = list(runner.result_queue.returned)
  try:
    status, res = dist.run_with_watchdog(body, 90)
  finally:
    if cl is not None:
      cl.stop()
    if master is not None:
      master._request_shutdown()  # pylint: disable=protected-access
  check(status != 'hang', 'hang', f'{what}: interleaved run still going after 90 s')
  if status == 'error':
    raise crash(res, what)
  if not case['aggregate_only']:
    check(sorted(map(dist.canon, out)) == sorted(map(dist.canon, want_out)), 'distributed-output-differs',
          f'{what}: interleaved batches {sorted(map(dist.canon, out))}, in-process {sorted(map(dist.canon, want_out))}')
  rets = [r for r in info['returned'] if isinstance(r, transform.AggregateResult)]
  check(len(rets) == 1 and len(info['returned']) == 1, 'not-exactly-one-final-aggregate', f'{what}: last stage returned {info["returned"]!r}')
  got = norm_result(rets[0].agg_result)
  want = {k: v for k, v in norm_result(want_agg).items() if k in got}
  check(got == want and {'sb', 'nb'} <= set(got), 'distributed-aggregate-differs', f'{what}: interleaved aggregate {got}, in-process {norm_result(want_agg)}')
  return {'nontrivial': bool(case['remote_workers']) and len(data) >= 2, 'classes': ['interleaved'] + (
      [f'remote-{case["remote_workers"]}'] if case['remote_workers'] else ['in-process-stages'])}


def strat_interleaved(tier):
  @st.composite
  def s(draw):
    return {'data': _data(draw, 8), 'shape': {'agg_a': draw(st.booleans()), 'filter': draw(st.booleans())},
            'remote_workers': draw(st.sampled_from([0, 0, 1, 2])), 'buffer': draw(st.integers(0, 3)),
            'aggregate_only': draw(st.sampled_from([False, False, True])), 'rseed': draw(st.integers(0, 10**6))}
  return s()


# ------------------------------------------------------------------------------------------------ strict merge contract
def run_strict_merge(case):
  from ml_metrics._src.chainables import io, transform  # pylint: disable=g-import-not-at-top
  n, j, kind = case['n'], case['j'], case['kind']
  data = [{'a': [i, i + 1]} for i in range(n + 2)]
  shape = {'filter': False, 'second_agg': case['second_agg'], 'chain2': bool(case.get('chain2'))}
  runner = dist.define_pipeline(data, shape).make()
  if kind == 'transform_runner':
    runner = runner._runners[-1]  # pylint: disable=protected-access
  states = []
  for i in range(n):
    it = dist.define_pipeline(data, shape, i, n).make().iterate()
    list(it)
    states.append(it.agg_state)
  what = f'{kind}.merge_states(states[:{j}], strict_states_cnt={n}) chain2={shape["chain2"]} stream={case.get("stream", True)}'
  try:
    merged = runner.merge_states(iter(states[:j]) if case.get('stream', True) else states[:j], strict_states_cnt=n)
  except ValueError:
    check(j != n, 'complete-states-rejected', f'{what} raised ValueError although all states are present')
    return {'nontrivial': True, 'classes': ['strict-merge-rejects']}
  except Exception as e:  # pylint: disable=broad-exception-caught
    raise crash(e, what) from e
  check(j == n, 'partial-aggregate-returned', f'{what} returned {merged!r} instead of raising ValueError')
  _, want = dist.in_process(data, shape)
  got = runner.get_result(merged)
  got = got.data if hasattr(got, 'data') and not isinstance(got, dict) else got
  check(norm_result(got) == norm_result(want), 'merged-aggregate-differs', f'{what}: {norm_result(got)} vs {norm_result(want)}')
  return {'nontrivial': n >= 2, 'classes': ['strict-merge-complete']}


def strat_strict(tier):
  return st.integers(1, 5).flatmap(lambda n: st.builds(
      lambda j, k, sa, c2, stream: {'n': n, 'j': j, 'kind': k, 'second_agg': sa and not (c2 and k == 'chained_runner'),
                                    'chain2': c2 and k == 'chained_runner', 'stream': stream}, st.integers(0, n),
      st.sampled_from(['chained_runner', 'transform_runner']), st.booleans(), st.booleans(), st.booleans()))


SCENARIOS = [
    Scenario('sharded', run_sharded, strategy=strat_sharded, setup=setup, budget={'quick': 400, 'thorough': 4000},
             shards={'quick': 10, 'thorough': 16}, nondeterministic=True),
    Scenario('interleaved', run_interleaved, strategy=strat_interleaved, setup=setup, budget={'quick': 250, 'thorough': 2500},
             shards={'quick': 5, 'thorough': 16}, nondeterministic=True),
    Scenario('strict_merge', run_strict_merge, strategy=strat_strict, budget={'quick': 300, 'thorough': 1500},
             shards={'quick': 1, 'thorough': 4}),
]
