"""C20 — worker liveness and ownership bookkeeping stays consistent."""
from __future__ import annotations

import itertools
import threading
import time as _time

from hypothesis import strategies as st

from vlib import dsched, targets
from vlib.core import Scenario, Violation, Inconclusive, check, crash
from props.c04 import schedule_strategy

PROPERTY = 'C20'
LEVEL = 'exploration'
RULE = ('(a) registry histories: generated sequences of clock advances, is_alive reads, late/stale heartbeat completions (replies '
        'parked by the fake transport and released later, successfully or not), register / refresh / unregister events with '
        'non-monotone times, against a model addr -> last | DEAD; plus concurrent register/refresh/unregister from 2..3 virtual '
        'threads checked against all linearisations; (b) ownership histories: 2..3 WorkerPools over the same 1..3 Worker '
        'singletons, one virtual thread per pool running generated acquire/release operations under generated schedules, each '
        'pool asserting after every operation that the workers it acquired are still its own and nobody else\'s; (c) pool-level '
        'operations (call_and_wait, run, as_completed incl. failing tasks) on the fake transport must leave no worker acquired; '
        'non-trivial = a late heartbeat after an unregister / two pools touching the same worker with >= 1 preemption / a failing '
        'task; distinct = distinct canonical case JSON'
        '; also: clients with a call timeout shorter / longer than the heartbeat threshold, further client handles made for the same address (new_client), other workers joining the registry (1..130), life/death notices through the real heartbeat handler with several kinds of truth values, a worker dying while acquired, early-closed as_completed, pools built over re-timed worker objects')
ASSUMPTIONS = [
    'harness clock replaces time in courier_utils so heartbeat staleness is driven by the generated history, not by machine load',
    'same scheduler trusted base as C04 for the concurrent parts; the transport is the in-process fake (vlib/fake_courier)',
]

_uid = itertools.count()
T = 100.0      # heartbeat threshold used in the histories


class Clock:
  now = 1000.0

  def time(self):
    return Clock.now

  monotonic = time

  def sleep(self, d):
    Clock.now += max(d, 0.001)


class SyncExecutor:

  def submit(self, fn):
    fn()


# ------------------------------------------------------------------------------------------------ (a) registry histories
def setup_registry():
  import courier  # pylint: disable=g-import-not-at-top
  from ml_metrics._src.utils import courier_utils  # pylint: disable=g-import-not-at-top
  courier_utils.time = Clock()
  courier.set_executor(SyncExecutor())


def run_registry(case):
  import courier  # pylint: disable=g-import-not-at-top
  from ml_metrics._src.utils import courier_utils  # pylint: disable=g-import-not-at-top
  courier.reset()
  Clock.now = 1000.0
  addr = f'reg{next(_uid)}'
  srv = courier.Server(addr)
  srv.Bind('heartbeat', lambda *a, **k: None)
  srv.Bind('maybe_make', lambda *a, **k: b'')
  srv.Start()
  courier.PLANS[(addr, 'heartbeat')] = ['hold'] * 200
  courier.PLANS[(addr, 'maybe_make')] = ['hold'] * 200
  # a call timeout (shorter or longer than the heartbeat threshold) is no part of liveness
  client = courier_utils.CourierClient(addr, heartbeat_threshold_secs=T, call_timeout=case.get('call_timeout', 0))
  reg = courier_utils.worker_registry()
  reg.data.clear()       # the registry is process-global: every case starts from an empty one (cases must replay on their own)
  what = f'ops={case["ops"]}'
  # model
  last = 'unknown'           # 'unknown' | 'DEAD' | float
  pend = []                  # [time, done, ok] in issue order; transport HELD order mirrors not-yet-done entries
  hb = None                  # the pending entry of the latest heartbeat ping
  dead_since_unregister = False
  late_after_dead = False
  extra = []

  def m_get():
    return 0.0 if last in ('unknown', 'DEAD') else last

  def m_refresh(t):
    nonlocal last
    if last == 'DEAD':
      return
    last = max(0.0 if last == 'unknown' else last, t)

  for step, op in enumerate(case['ops']):
    w = f'{what}: step {step} {op} (model last={last}, now={Clock.now})'
    k = op[0]
    if k == 'advance':
      Clock.now += op[1]
    elif k == 'register':
      t = Clock.now + op[1]
      reg.register(addr, t)
      last, dead_since_unregister = t, False
    elif k == 'refresh':
      before = reg.get(addr)
      reg.refresh(addr, Clock.now + op[1])
      m_refresh(Clock.now + op[1])
      check(reg.get(addr) >= before or last == 'DEAD', 'heartbeat-moved-backwards', f'{w}: {before} -> {reg.get(addr)}')
    elif k == 'unregister':
      reg.unregister(addr)
      last, dead_since_unregister = 'DEAD', True
    elif k == 'others_join':
      # other workers register (the registry is shared by all workers of the process: 1, or a crowd crossing 2**7 entries);
      # this must not change what is recorded for this worker
      for j in range(op[1]):
        reg.register(f'{addr}_other{next(_uid)}', Clock.now)
    elif k == 'new_client':
      # another handle for the same address is made (a second pool, a re-made worker): by itself no sign of life
      extra.append(_guard(lambda: courier_utils.CourierClient(addr, heartbeat_threshold_secs=T, call_timeout=1000 + next(_uid)), w))
      check(reg.get(addr) == m_get(), 'recorded-heartbeat-differs-from-model', f'{w}: registry {reg.get(addr)} vs model {m_get()}')
    elif k == 'call':
      client.call(b'x')
      pend.append([Clock.now, False, False])
    elif k == 'release':
      held = [p for p in pend if not p[1]]
      if not held:
        continue
      i = op[1] % len(held)
      courier.release(i, ok=op[2])
      held[i][1], held[i][2] = True, op[2]
      late_after_dead = late_after_dead or (dead_since_unregister and op[2])
    elif k == 'is_alive':
      got = _guard(lambda: client.is_alive, w)
      # model of one liveness poll: absorb completed calls (refresh with their send time), compare, maybe ping
      still = []
      for p in pend:
        if p[1]:
          if p[2]:
            m_refresh(p[0])
        else:
          still.append(p)
      pend[:] = still
      want = Clock.now - m_get() < T
      check(got == want, 'liveness-not-a-function-of-recorded-heartbeat',
            f'{w}: is_alive={got}, model says {want} (recorded={reg.get(addr)}, model last={last})')
      check(reg.get(addr) == m_get(), 'recorded-heartbeat-differs-from-model', f'{w}: registry {reg.get(addr)} vs model {m_get()}')
      if dead_since_unregister:
        check(not got, 'dead-worker-reported-alive', f'{w}: worker was unregistered and never re-registered but is_alive is True')
      if not want and (hb is None or (hb[1] and Clock.now - hb[0] > 30)):
        hb = [Clock.now, False, False]       # the client pings once per interval while it considers the worker not alive
        pend.append(hb)
  return {'nontrivial': late_after_dead, 'classes': ['registry-history'] + (['late-heartbeat-after-unregister'] if late_after_dead else [])}


def _guard(fn, what):
  try:
    return fn()
  except Violation:
    raise
  except Exception as e:  # pylint: disable=broad-exception-caught
    raise crash(e, what) from e


def strat_registry(tier):
  op = st.one_of(
      st.tuples(st.just('advance'), st.sampled_from([1.0, 20.0, 40.0, 99.0, 101.0, 250.0])).map(list),
      st.tuples(st.just('register'), st.sampled_from([0.0, -50.0, -150.0, 10.0])).map(list),
      st.tuples(st.just('refresh'), st.sampled_from([0.0, -50.0, -150.0, 10.0])).map(list),
      st.just(['unregister']), st.just(['call']), st.just(['is_alive']), st.just(['is_alive']), st.just(['new_client']),
      st.tuples(st.just('others_join'), st.sampled_from([1, 1, 2, 130])).map(list),
      st.tuples(st.just('release'), st.integers(0, 3), st.booleans()).map(list),
      st.tuples(st.just('release'), st.integers(0, 3), st.just(True)).map(list),
  )
  @st.composite
  def s(draw):
    ops = draw(st.lists(op, min_size=3, max_size=25 if tier == 'quick' else 50))
    if draw(st.integers(0, 5)) == 0:
      # the worker dies, many others join meanwhile, then a stale sign of life of the dead worker arrives
      i = draw(st.integers(0, len(ops)))
      late = draw(st.sampled_from([[['refresh', 0.0]], [['release', 0, True]], [['refresh', -50.0]]]))
      ops[i:i] = [['call'], ['unregister'], draw(st.sampled_from([['others_join', 1], ['others_join', 127], ['others_join', 130],
                                                                  ['new_client']]))] + late + [['is_alive']]
    return {'ops': ops, 'call_timeout': draw(st.sampled_from([0, 0, None, 30.0, 3 * T]))}
  return s()


# ------------------------------------------------------------------------------------------------ (a'') life and death notices
def run_notices(case):
  """A worker tells a server that it is alive / going away (CourierClient.send_heartbeat -> the server's heartbeat handler):
  a death notice marks the sender dead whatever kind of false value carries it, and nothing but a new registration revives it."""
  import courier  # pylint: disable=g-import-not-at-top
  import numpy as np  # pylint: disable=g-import-not-at-top
  from ml_metrics._src.chainables import courier_server  # pylint: disable=g-import-not-at-top
  from ml_metrics._src.utils import courier_utils  # pylint: disable=g-import-not-at-top
  courier.reset()
  Clock.now = 1000.0
  name = f'ntc{next(_uid)}'
  sender = f'{name}_sender'
  server = courier_server.CourierServer(name)
  server.build_server().Start()
  reg = courier_utils.worker_registry()
  reg.data.clear()
  client = courier_utils.CourierClient(name, heartbeat_threshold_secs=T)
  kinds = {'True': True, 'False': False, 'np.True_': np.True_, 'np.False_': np.False_, 'np.bool_(False)': np.bool_(False),
           '1': 1, '0': 0, 'np.int64(0)': np.int64(0)}
  what = f'notices={case["ops"]}'
  dead = None
  for step, op in enumerate(case['ops']):
    w = f'{what}: step {step} {op}'
    if op[0] == 'advance':
      Clock.now += op[1]
    elif op[0] == 'notice':
      val = kinds[op[1]]
      _guard(lambda: client.send_heartbeat(sender, val).result(), w)
      dead = not bool(val)
    elif op[0] == 'late_refresh':
      reg.refresh(sender, Clock.now)
    if dead is not None:
      rec = reg.get(sender)
      check((rec == 0) == dead, 'death-notice-not-honoured' if dead else 'life-notice-not-honoured',
            f'{w}: after the notice the sender is recorded as {"alive" if rec else "dead"} (heartbeat {rec}), want {"dead" if dead else "alive"}')
  server._request_shutdown()  # pylint: disable=protected-access
  return {'nontrivial': any(op[0] == 'notice' and op[1] not in ('True', 'False') for op in case['ops']), 'classes': ['notices']}


def strat_notices(tier):
  op = st.one_of(st.tuples(st.just('notice'), st.sampled_from(['True', 'False', 'np.True_', 'np.False_', 'np.bool_(False)', '1', '0',
                                                                'np.int64(0)'])).map(list),
                 st.just(['late_refresh']), st.tuples(st.just('advance'), st.sampled_from([1.0, 50.0])).map(list))
  return st.lists(op, min_size=1, max_size=8).map(lambda ops: {'ops': ops})


# ------------------------------------------------------------------------------------------------ (a') concurrent registry ops
def setup_sched():
  from ml_metrics._src.utils import courier_utils, iter_utils  # pylint: disable=g-import-not-at-top
  from ml_metrics._src.chainables import courier_worker  # pylint: disable=g-import-not-at-top
  dsched.install(iter_utils)
  dsched.install(courier_utils, time=True)
  dsched.install(courier_worker, time=True)


def _apply(state, op):
  k = op[0]
  if k == 'register':
    return op[1]
  if k == 'unregister':
    return 'DEAD'
  if k == 'refresh':
    if state == 'DEAD':
      return state
    return max(0.0 if state == 'unknown' else state, op[1])
  return state


def run_registry_threads(case):
  from ml_metrics._src.utils import courier_utils  # pylint: disable=g-import-not-at-top
  reg = courier_utils.WorkerRegistry()
  addr = 'w'
  threads_ops = case['threads']
  what = f'threads={threads_ops}'

  def body(ops):
    for op in ops:
      if op[0] == 'register':
        reg.register(addr, op[1])
      elif op[0] == 'unregister':
        reg.unregister(addr)
      else:
        reg.refresh(addr, op[1])

  def main():
    ths = [dsched.Thread(target=body, args=(ops,), name=f'R{i}') for i, ops in enumerate(threads_ops)]
    for t in ths:
      t.start()
    for t in ths:
      t.join()
  try:
    _, s = dsched.run(main, case['schedule'])
  except dsched.Deadlock as e:
    raise Violation('deadlock', f'{what}: {e}') from e
  except dsched.StepBudget as e:
    raise Inconclusive(str(e)) from e
  # every interleaving of the (atomic) operations that respects per-thread order
  finals = set()

  def rec(pos, state):
    if all(p == len(o) for p, o in zip(pos, threads_ops)):
      finals.add(0.0 if state in ('unknown', 'DEAD') else state)
      return
    for i, ops in enumerate(threads_ops):
      if pos[i] < len(ops):
        np_ = list(pos)
        np_[i] += 1
        rec(np_, _apply(state, ops[pos[i]]))
  rec([0] * len(threads_ops), 'unknown')
  got = reg.get(addr)
  check(got in finals, 'registry-state-not-linearisable', f'{what}: final heartbeat {got}, linearisations allow {sorted(finals)}')
  return {'nontrivial': s.preemptions >= 1 and len(finals) >= 2, 'classes': ['registry-threads'],
          'extra': {'scheduling_points': s.steps}}


def strat_registry_threads(tier):
  op = st.one_of(st.tuples(st.just('register'), st.sampled_from([5.0, 50.0])).map(list), st.just(['unregister']),
                 st.tuples(st.just('refresh'), st.sampled_from([1.0, 10.0, 100.0])).map(list),
                 st.tuples(st.just('refresh'), st.sampled_from([1.0, 10.0, 100.0])).map(list))
  return st.builds(lambda t, s: {'threads': t, 'schedule': s}, st.lists(st.lists(op, min_size=1, max_size=3), min_size=2, max_size=3),
                   schedule_strategy(20))


# ------------------------------------------------------------------------------------------------ (b) ownership histories
def run_ownership(case):
  from ml_metrics._src.chainables import courier_worker  # pylint: disable=g-import-not-at-top
  from ml_metrics._src.utils import courier_utils  # pylint: disable=g-import-not-at-top
  tag = next(_uid)
  nw, pools_ops = case['workers'], case['pools']
  addrs = [f'own{tag}_{i}' for i in range(nw)]
  what = f'workers={nw} pools={pools_ops}'
  owner = {}           # model: address -> pool index
  errors = []
  touched = {}

  def main():
    now = dsched.time_shim.time()
    for a in addrs:
      courier_utils.worker_registry().register(a, now)
    pools = [courier_worker.WorkerPool(addrs)]
    if case.get('retime'):
      # the first pool changes its workers' timeout, then the other pools are built over the very same worker objects: they
      # must still be the same workers (one lock per worker), whatever their configuration is now
      pools[0].set_timeout(case['retime'])
      pools += [courier_worker.WorkerPool(pools[0].all_workers) for _ in pools_ops[1:]]
    else:
      pools += [courier_worker.WorkerPool(addrs) for _ in pools_ops[1:]]
    workers = pools[0].all_workers

    def claim(pi, w, how):
      cur = owner.get(w.address)
      if cur is not None and cur != pi:
        errors.append(('two-owners', f'pool {pi} acquired {w.address} via {how} while pool {cur} still owns it'))
      owner[w.address] = pi
      touched.setdefault(w.address, set()).add(pi)

    def check_mine(pi, label):
      for a, p in list(owner.items()):
        if p == pi:
          w = next(x for x in pools[pi].all_workers if x.address == a)      # the pool's own handle on that worker
          if not w.is_locked(pools[pi]):
            errors.append(('ownership-ended-by-other-pool', f'after {label}: pool {pi} acquired {a} and did not release it, '
                           f'but is_locked(pool {pi}) is False (locked={w._lock.locked()}, holder={_pool_index(pools, w)})'))  # pylint: disable=protected-access
            del owner[a]

    def absorb(pi, how):
      for w in pools[pi].all_workers:
        if w.is_locked(pools[pi]) and owner.get(w.address) != pi:
          claim(pi, w, how)

    def actor(pi, ops):
      p = pools[pi]
      for op in ops:
        k = op[0]
        if k == 'acquire_all':
          for w in p._acquire_all():  # pylint: disable=protected-access
            claim(pi, w, 'acquire_all')
        elif k == 'next':
          p.next_idle_worker(maybe_acquire=True)
          absorb(pi, 'next_idle_worker')
        elif k == 'acquire_by':
          w = p.all_workers[op[1] % nw]
          if w.acquire_by(p):
            claim(pi, w, 'acquire_by')
        elif k == 'release_all':
          subset = [p.all_workers[i % nw] for i in op[1]] if op[1] else []
          mine_before = [a for a, o in owner.items() if o == pi and (not subset or a in [w.address for w in subset])]
          for a in mine_before:
            del owner[a]          # from here on this pool no longer claims them
          p.release_all(subset)
        elif k == 'release':
          w = p.all_workers[op[1] % nw]
          if owner.get(w.address) == pi:
            del owner[w.address]
            w.release()
        check_mine(pi, op)
    ths = [dsched.Thread(target=actor, args=(i, ops), name=f'pool{i}') for i, ops in enumerate(pools_ops)]
    for t in ths:
      t.start()
    for t in ths:
      t.join()
    for t in ths:
      if t.vt.exc is not None:
        raise t.vt.exc
    for p in pools:
      for w in p.all_workers:
        w.release()
  try:
    _, s = dsched.run(main, case['schedule'])
  except dsched.Deadlock as e:
    raise Violation('deadlock', f'{what}: {e}') from e
  except dsched.StepBudget as e:
    raise Inconclusive(str(e)) from e
  except Exception as e:  # pylint: disable=broad-exception-caught
    raise crash(e, what) from e
  if errors:
    raise Violation(errors[0][0], f'{what}: {errors[0][1]}')
  shared = any(len(v) >= 2 for v in touched.values())
  return {'nontrivial': shared and s.preemptions >= 1, 'classes': ['ownership'] + (['shared-worker'] if shared else []),
          'extra': {'scheduling_points': s.steps, 'preemptions': s.preemptions}}


def _pool_index(pools, w):
  for i, p in enumerate(pools):
    if w.worker_pool is p:
      return i
  return None


def strat_ownership(tier):
  op = st.one_of(st.just(['acquire_all']), st.just(['next']), st.tuples(st.just('acquire_by'), st.integers(0, 2)).map(list),
                 st.tuples(st.just('release_all'), st.lists(st.integers(0, 2), max_size=2)).map(list),
                 st.tuples(st.just('release_all'), st.just([])).map(list), st.tuples(st.just('release'), st.integers(0, 2)).map(list))
  return st.builds(lambda w, p, s, r: {'workers': w, 'pools': p, 'schedule': s, 'retime': r}, st.integers(1, 3),
                   st.lists(st.lists(op, min_size=1, max_size=6), min_size=2, max_size=3), schedule_strategy(40),
                   st.sampled_from([None, None, None, 5, 30]))


# ------------------------------------------------------------------------------------------------ (c) pool-level operations
def setup_pool_ops():
  from ml_metrics._src.chainables import courier_server  # pylint: disable=g-import-not-at-top
  courier_server.CourierServer.__del__ = lambda self: None


def run_pool_ops(case):
  import courier  # pylint: disable=g-import-not-at-top
  from ml_metrics._src.chainables import courier_server, courier_worker, orchestrate, lazy_fns as lf  # pylint: disable=g-import-not-at-top
  from ml_metrics._src.utils import courier_utils  # pylint: disable=g-import-not-at-top
  import random  # pylint: disable=g-import-not-at-top
  courier.reset()
  random.seed(case.get('rseed', 0))     # orchestrate / courier_worker shuffle workers with the global RNG
  tag = next(_uid)
  addrs = [f'po{tag}_{i}' for i in range(case['workers'])]
  servers = [courier_server.CourierServer(a) for a in addrs]
  for s in servers:
    s.start()
  for a in addrs:
    courier_utils.worker_registry().register(a, _time.time())
  pool = courier_worker.WorkerPool(addrs, call_timeout=5)
  what = f'{case}'
  stop_watch = threading.Event()
  if case.get('die') is not None:
    # one worker dies on the first task it is given and is pronounced dead (unregistered) - after the pool acquired it
    victim = addrs[case['die'] % len(addrs)]
    courier.PLANS[(victim, 'maybe_make')] = ['die']

    def watcher():
      while not stop_watch.is_set():
        if any(c[0] == victim and c[2] == 'die' for c in list(courier.CALLS)):
          courier_utils.worker_registry().unregister(victim)
          return
        _time.sleep(0.001)
    threading.Thread(target=watcher, daemon=True).start()
  tasks = []
  for t in case['tasks']:
    if t[0] == 'ok':
      tasks.append(lf.trace(targets.counted_add)(t[1], 1))
    else:
      tasks.append(lf.trace(targets.raise_value_error)(f'task {t[1]} fails'))
  out = {}

  def body():
    try:
      if case['op'] == 'run':
        out['result'] = [pool.run(t) for t in tasks[:2]]
      elif case['op'] == 'call_and_wait':
        out['result'] = pool.call_and_wait(tasks[0])
      elif case['op'] == 'as_completed_closed':
        # the caller takes `take` results and closes the generator early
        gen = orchestrate.as_completed(pool, tasks)
        out['result'] = []
        for x in gen:
          out['result'].append(x)
          if len(out['result']) >= case.get('take', 1):
            break
        gen.close()
      else:
        out['result'] = list(orchestrate.as_completed(pool, tasks))
    except Exception as e:  # pylint: disable=broad-exception-caught
      out['error'] = e
  th = threading.Thread(target=body, daemon=True)
  th.start()
  th.join(60)
  hung = th.is_alive()
  stop_watch.set()
  acquired = [w.address for w in pool.all_workers if w.is_locked(pool)]    # dead ones too
  died = case.get('die') is not None and any(c[2] == 'die' for c in courier.CALLS)
  for s in servers:
    s.stop()
  for w in pool.all_workers:
    w.release()
  check(not hung, 'hang', f'{what}: pool operation still running after 60 s')
  fails = any(t[0] == 'fail' for t in (case['tasks'][:2] if case['op'] == 'run' else case['tasks'][:1] if case['op'] == 'call_and_wait' else case['tasks']))
  if case['op'] == 'as_completed_closed':
    pass      # an early close may or may not have met the failing task: only the ownership invariant below applies
  elif fails:
    check('error' in out, 'task-error-swallowed', f'{what}: a task raises but the operation returned {out.get("result")!r}')
  elif died:
    # the death may surface as an error (call_and_wait / run on the dead worker, or no worker left) or be retried elsewhere;
    # either way a delivered as_completed result list is exactly-once
    if 'error' not in out and case['op'] == 'as_completed':
      want = sorted(t[1] + 1 for t in case['tasks'])
      check(sorted(out['result']) == want, 'results-not-exactly-once', f'{what}: got {sorted(out["result"])}, want {want}')
  else:
    check('error' not in out, 'unexpected-error', lambda: f'{what}: {out["error"]!r}')
    if case['op'] == 'as_completed':
      want = sorted(t[1] + 1 for t in case['tasks'])
      check(sorted(out['result']) == want, 'results-not-exactly-once', f'{what}: got {sorted(out["result"])}, want {want}')
  if case['op'] == 'as_completed_closed' and 'error' in out and not fails and not died:
    raise Violation('unexpected-error', f'{what}: {out["error"]!r}')
  check(not acquired, 'workers-left-acquired', f'{what}: after the operation {"raised" if "error" in out else "returned"} the pool still holds {acquired}')
  return {'nontrivial': fails or died or len(case['tasks']) >= 2,
          'classes': [f'op-{case["op"]}', 'failing-task' if fails else 'ok-tasks'] + (['worker-died-while-acquired'] if died else [])}


def strat_pool_ops(tier):
  task = st.one_of(st.tuples(st.just('ok'), st.integers(0, 50)).map(list), st.tuples(st.just('ok'), st.integers(0, 50)).map(list),
                   st.tuples(st.just('fail'), st.integers(0, 50)).map(list))
  return st.builds(lambda op, w, t, r, d, k: {'op': op, 'workers': w, 'tasks': t, 'rseed': r, 'die': d, 'take': k},
                   st.sampled_from(['run', 'call_and_wait', 'as_completed', 'as_completed', 'as_completed_closed']),
                   st.integers(1, 3), st.lists(task, min_size=1, max_size=6), st.integers(0, 10**6),
                   st.sampled_from([None, None, 0, 1, 2]), st.integers(1, 3))


SCENARIOS = [
    Scenario('registry_histories', run_registry, strategy=strat_registry, setup=setup_registry,
             budget={'quick': 3000, 'thorough': 60000}, shards={'quick': 4, 'thorough': 16}),
    Scenario('notices', run_notices, strategy=strat_notices, setup=setup_registry,
             budget={'quick': 400, 'thorough': 4000}, shards={'quick': 1, 'thorough': 4}),
    Scenario('registry_threads', run_registry_threads, strategy=strat_registry_threads, setup=setup_sched,
             budget={'quick': 1500, 'thorough': 30000}, shards={'quick': 2, 'thorough': 8}),
    Scenario('ownership', run_ownership, strategy=strat_ownership, setup=setup_sched,
             budget={'quick': 3000, 'thorough': 80000}, shards={'quick': 6, 'thorough': 16}),
    Scenario('pool_operations', run_pool_ops, strategy=strat_pool_ops, setup=setup_pool_ops,
             budget={'quick': 800, 'thorough': 8000}, shards={'quick': 8, 'thorough': 16}, nondeterministic=True),
]
