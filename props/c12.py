"""C12 — error skipping drops only failing elements; otherwise the first error surfaces."""
from __future__ import annotations

import collections.abc
import copy
import gc
import json
import threading
import time

from hypothesis import strategies as st

from vlib import pipegen, targets
from vlib.core import Scenario, Violation, check, crash
from vlib.oracles import pipeline_ref as pref
from props.c08 import eq

PROPERTY = 'C12'
LEVEL = 'fault_enumeration'
RULE = ('faults = positions/values at which a pipeline function raises (any operator kind, 0..4 poisoned values, several per '
        'stream, adjacent, first/last element; skippable and other exception types), records with a missing input key, and '
        'failing positions inside the data source; crossed with operator programs from the C08 grammar, apply/assign re-batching '
        'options, num_threads 0..2 and error skipping on/off; oracle = reference interpreter run on the stream with exactly the '
        'failing elements removed (skipping on) or up to the first failing element (skipping off: original exception in the cause '
        'chain, nothing delivered out of order, sinks closed, helper threads ended); non-trivial = a failing element that is not '
        'the last one together with >= 2 operators, a batching option or threads; distinct = distinct canonical case JSON'
        '; also: failing source reads under operator programs (iterator sources, threads), abc.Sequence / list-subclass / index-only sources, runs of 127..150 consecutive failing reads, unreadable input batches under re-batching; after an error next() must not hand out further elements; a runner reused after an earlier pass with the same / the opposite skipping setting; pipelines of a data source and no operator')
ASSUMPTIONS = [
    'every exception raised by a pipeline function is skippable (TreeFn wraps it into ValueError "Failed to call"); an error while '
    'fetching inputs (missing key) or a non-ValueError/TypeError from the data source is not',
    'with num_threads > 0 outputs are compared as multisets; a run exceeding 30 s is re-run and only reported if it hangs again',
]


def _canon(x):
  return json.dumps(x, sort_keys=True, default=str)


def _poisoned(prog):
  return [i for i, o in enumerate(prog['ops']) if isinstance(o.get('fn'), list)]


def _run_with_watchdog(fn, what, timeout=30.0):
  box = {}

  def body():
    try:
      box['r'] = fn()
    except BaseException as e:  # pylint: disable=broad-exception-caught
      box['e'] = e
  th = threading.Thread(target=body, daemon=True, name='verif-c12-body')
  th.start()
  th.join(timeout)
  if th.is_alive():
    raise Violation('hang', f'{what}: still running after {timeout}s')
  if 'e' in box:
    raise box['e']
  return box['r']


def _lingering_threads(before):
  deadline = time.time() + 3.0
  while True:
    alive = [t for t in threading.enumerate() if t not in before and t.is_alive() and t.name != 'verif-c12-body']
    if not alive or time.time() > deadline:
      return alive
    time.sleep(0.01)


def _cause_chain(e):
  seen = []
  while e is not None and e not in seen:
    seen.append(e)
    e = e.__cause__ or e.__context__
  return seen


class _Failure:

  def __init__(self, index, exc):
    self.index, self.exc = index, exc


def run_ops(case):
  from ml_metrics._src.chainables import io  # pylint: disable=g-import-not-at-top
  prog, records, skip, nthreads = case['prog'], case['records'], case['skip'], case['num_threads']
  what = f'program {prog["ops"]} on {records} ignore_error={skip} num_threads={nthreads}'
  bad = sorted(set(case.get('bad_reads') or []))      # positions whose read fails in the source (skippable ValueError)
  as_iter = case.get('source_as') == 'iterator'       # the source handed over as a plain iterator (not shardable)
  what += f' bad_reads={bad} source_as={case.get("source_as", "source")}'
  if bad and skip:
    want, want_sinks, failure = pref.run(prog, [r for i, r in enumerate(records) if i not in bad], skip_errors=True, skippable=(Exception,))
  elif bad:
    want, want_sinks, failure = pref.run(prog, records[:bad[0]], skip_errors=False, skippable=(Exception,))
    if failure is None:
      failure = _Failure(bad[0], ValueError(f'bad read at {bad[0]}'))
  else:
    want, want_sinks, failure = pref.run(prog, records, skip_errors=skip, skippable=(Exception,))
  t, sinks = pipegen.build(prog, num_threads=nthreads)
  before = set(threading.enumerate())
  got, err, after = [], [], []
  prior = case.get('prior')        # the runner was used before: a whole earlier pass with the same / the opposite setting
  if prior:
    what += f' (same runner after an earlier pass with ignore_error={skip if prior == "same" else not skip})'

  def consume():
    data = copy.deepcopy(records)
    src = io.SequenceDataSource(FailingSeq(data, bad, 'ValueError') if bad else data)
    runner = t.make()
    no_ops = not prog['ops']      # a pipeline of a data source and nothing else: the source is part of the transform
    if no_ops:
      runner = t.data_source(src).make()
    if prior:
      data0 = copy.deepcopy(records)
      src0 = io.SequenceDataSource(FailingSeq(data0, bad, 'ValueError') if bad else data0)
      try:
        for _ in runner.iterate(iter(src0) if as_iter else src0, ignore_error=skip if prior == 'same' else not skip):
          pass
      except Exception:  # pylint: disable=broad-exception-caught
        pass
      gc.collect()
      for s_ in sinks:
        s_.data.clear()
        s_.closed = 0
    it = runner.iterate(ignore_error=skip) if no_ops else runner.iterate(iter(src) if as_iter else src, ignore_error=skip)
    try:
      for x in it:
        got.append(x)
    except Exception as e:  # pylint: disable=broad-exception-caught
      # keep only a traceback-free copy of the cause chain: frames would keep the suspended generators (and sinks) alive
      err.append([(type(c), str(c)) for c in _cause_chain(e)])
      del e
      if not nthreads:
        # iteration has stopped: asking again must not hand out the elements behind the failing one
        for _ in range(3):
          try:
            after.append(next(it))
          except StopIteration:
            break
          except Exception:  # pylint: disable=broad-exception-caught
            pass
    del it
  if nthreads:
    _run_with_watchdog(consume, what)
  else:
    consume()
  gc.collect()
  threaded = nthreads > 0
  if failure is None:
    check(not err, 'unexpected-error', lambda: f'{what}: raised {err[0][0][0].__name__}: {err[0][0][1]} but no element should surface an error')
    if threaded:
      check(sorted(map(_canon, got)) == sorted(map(_canon, want)), 'skipping-loses-or-corrupts-elements',
            f'{what}: got multiset {sorted(map(_canon, got))}, reference {sorted(map(_canon, want))}')
    else:
      check(eq(got, want), 'skipping-loses-or-corrupts-elements', f'{what}: got {got!r}, reference {want!r}')
      for i, (s, w) in enumerate(zip(sinks, want_sinks)):
        check(eq(s.data, w), 'sink-saw-wrong-stream', f'{what}: sink {i} got {s.data!r}, reference {w!r}')
  else:
    check(bool(err), 'error-swallowed', f'{what}: reference fails on record {failure.index} with {failure.exc!r} but the run delivered {got!r} without error')
    chain = err[0]
    check(any(t is type(failure.exc) and m == str(failure.exc) for t, m in chain) or threaded and any(
        t is type(failure.exc) for t, _ in chain), 'original-exception-not-in-cause-chain',
          f'{what}: raised {[f"{t.__name__}: {m}"[:80] for t, m in chain]}, original is {failure.exc!r}')
    if not threaded:
      check(eq(got, want), 'wrong-elements-before-first-error', f'{what}: delivered {got!r} before the error, reference {want!r}')
      check(not after, 'iteration-continues-after-error', f'{what}: after the error surfaced, next() handed out {after!r}')
  for i, s in enumerate(sinks):
    check(s.closed >= 1, 'sink-not-closed', f'{what}: sink {i} not closed (error={bool(err)})')
  if threaded:
    alive = _lingering_threads(before)
    check(not alive, 'helper-threads-outlive-iteration', f'{what}: threads still alive: {[t.name for t in alive]}')
  fails = len(records) - len(want) if failure is None else 1
  nt = fails > 0 and (len(prog['ops']) >= 2 or threaded) and len(records) >= 2
  return {'nontrivial': nt, 'classes': [f'skip-{skip}', f'threads-{nthreads}', 'surfaces' if failure else 'completes'] + (
      ['has-failing-element'] if fails else [])}


def strat_ops(tier):
  @st.composite
  def s(draw):
    prog = draw(pipegen.programs(max_ops=5, allow_batch=False, scalar_start=False))
    cands = [i for i, o in enumerate(prog['ops']) if o['op'] in ('apply', 'assign', 'filter')]
    for i in draw(st.lists(st.sampled_from(cands), max_size=2, unique=True)) if cands else []:
      vals = draw(st.lists(st.integers(0, 12), min_size=1, max_size=4, unique=True))
      exc = draw(st.sampled_from(['ValueError', 'TypeError', 'KeyError', 'InjectedError', 'ZeroDivisionError']))
      prog['ops'][i] = dict(prog['ops'][i], fn=['fail', prog['ops'][i]['fn'], vals, exc])
    records = draw(st.lists(pipegen.record_strategy(), min_size=0, max_size=8))
    # a record without key 'b': fetching inputs fails outside the guarded call (never skippable)
    if records and draw(st.integers(0, 5)) == 0:
      i = draw(st.integers(0, len(records) - 1))
      records[i] = {k: v for k, v in records[i].items() if k != 'b'}
    case = {'prog': prog, 'records': records, 'skip': draw(st.booleans()), 'num_threads': draw(st.sampled_from([0, 0, 0, 1, 2]))}
    if records and draw(st.integers(0, 3)) == 0:
      case['bad_reads'] = draw(st.lists(st.integers(0, len(records) - 1), min_size=1, max_size=2))
    case['source_as'] = draw(st.sampled_from(['source', 'source', 'iterator']))
    if len(records) >= 2 and draw(st.integers(0, 9)) == 0:
      # the degenerate pipeline: a data source and no operator at all; one read fails
      case['prog'] = dict(prog, ops=[])
      case['bad_reads'] = [draw(st.integers(0, len(records) - 2))]
    case['prior'] = draw(st.sampled_from([None, None, None, 'same', 'opposite']))
    if not case['prog']['ops']:
      case['prior'] = None
    return case
  return s()


# ------------------------------------------------------------------------------------------------ batching options
def _colfn(x):
  return [v + 100 for v in x]


def run_batching(case):
  from ml_metrics._src.chainables import transform  # pylint: disable=g-import-not-at-top
  rows, B, f, b, op, skip = case['rows'], case['in_batch'], case['fn_batch_size'], case['batch_size'], case['op'], case['skip']
  poison = set(case['poison'])
  what = f'{op}(fn_batch_size={f}, batch_size={b}) on rows {rows} in input batches of {B}, poison={sorted(poison)}, ignore_error={skip}'
  in_batches = [{'a': rows[i:i + B]} for i in range(0, len(rows), B)]
  bad = sorted(set(i for i in (case.get('bad_batches') or []) if i < len(in_batches)))   # input batches whose read fails
  if bad:
    what += f', reads of input batches {bad} fail (ValueError)'
    # with skipping, the rows of an unreadable input batch never reach the operator
    live = [bt for i, bt in enumerate(in_batches) if i not in bad] if skip else in_batches
    rows = [v for bt in live for v in bt['a']]
  else:
    live = in_batches
  fn = targets.FailOn('ident', sorted(poison), case['exc'])

  def colfn(x):
    fn(list(x))
    return _colfn(x)
  t = transform.TreeTransform.new()
  if op == 'apply':
    t = t.apply(colfn, input_keys='a', output_keys='x', fn_batch_size=f, batch_size=b)
  else:
    t = t.assign('x', fn=colfn, input_keys='a', fn_batch_size=f, batch_size=b)
  # reference: the function sees consecutive chunks of fn_batch_size rows (or the input batches when 0); a failing chunk is dropped
  fsz = f or B
  chunks = [rows[i:i + fsz] for i in range(0, len(rows), fsz)] if f else [bt['a'] for bt in live]
  first_fail = next((i for i, c in enumerate(chunks) if poison & set(c)), None)
  got, err = [], []
  if bad:
    from ml_metrics._src.chainables import io  # pylint: disable=g-import-not-at-top
    it = t.make().iterate(io.SequenceDataSource(FailingSeq(copy.deepcopy(in_batches), bad, 'ValueError')), ignore_error=skip)
  else:
    it = t.make().iterate(copy.deepcopy(in_batches), ignore_error=skip)
  try:
    for x in it:
      got.append(x)
  except Exception as e:  # pylint: disable=broad-exception-caught
    err.append(e)
  if bad and not skip:
    check(bool(err), 'error-swallowed', f'{what}: a read fails but no error surfaced; delivered {got!r}')
    return {'nontrivial': True, 'classes': [f'op-{op}', 'skip-False', 'unreadable-input-batch']}
  if skip or first_fail is None:
    check(not err, 'unexpected-error', lambda: f'{what}: raised {type(err[0]).__name__}: {err[0]}')
    kept = [c for c in chunks if not (poison & set(c))]
    flat = [v for c in kept for v in c]
    if op == 'apply':
      want_rows = [v + 100 for v in flat]
      got_rows = [v for g in got for v in g['x']]
      check(got_rows == want_rows, 'skipping-loses-or-corrupts-elements',
            f'{what}: delivered rows {got_rows}, want {want_rows} (all rows of non-failing calls, in order)')
      sizes = [len(g['x']) for g in got] if b else []
      check(all(z == b for z in sizes[:-1]) and (not sizes or 0 < sizes[-1] <= b), 'wrong-batch-size', f'{what}: output batch sizes {sizes}')
    else:
      # assign keeps each assigned value next to its own input: every delivered batch must satisfy x == a + 100 row by row,
      # and every input batch whose call did not fail must be delivered, in order.
      for g in got:
        check(list(g['x']) == [v + 100 for v in g['a']], 'assigned-value-misaligned-with-its-input', f'{what}: delivered {g!r}')
      good = [bt['a'] for bt, c in zip(live, chunks) if not (poison & set(c))]
      check([list(g['a']) for g in got] == good, 'skipping-loses-or-corrupts-elements',
            f'{what}: delivered input batches {[list(g["a"]) for g in got]}, want {good}')
  else:
    check(bool(err), 'error-swallowed', f'{what}: chunk {first_fail} fails but no error surfaced; delivered {got!r}')
    chain = _cause_chain(err[0])
    check(any(type(c) is targets.EXC[case['exc']] for c in chain), 'original-exception-not-in-cause-chain',
          f'{what}: raised {[type(c).__name__ for c in chain]}')
  nfail = sum(1 for c in chunks if poison & set(c))
  nt = nfail > 0 and first_fail is not None and first_fail < len(chunks) - 1
  return {'nontrivial': nt or bool(bad), 'classes': [f'op-{op}', f'skip-{skip}'] + (['failing-chunk-not-last'] if nt else []) + (
      ['unreadable-input-batch'] if bad else [])}


def strat_batching(tier):
  @st.composite
  def s(draw):
    op = draw(st.sampled_from(['apply', 'apply', 'assign']))
    B = draw(st.integers(1, 4))
    nb = draw(st.integers(0, 5))
    rows = [draw(st.integers(0, 9)) for _ in range(B * nb)]
    if op == 'assign':
      # alignment of assigned values with their inputs is only defined when the call and output batches coincide with the input batches
      f, b = draw(st.sampled_from([(0, B), (B, B), (0, 0)]))
    else:
      b = draw(st.integers(1, 5))
      f = draw(st.sampled_from([0, 0, 1, 2, 3]))
      if draw(st.integers(0, 4)) == 0:
        b, f = 0, 0
    case = {'rows': rows, 'in_batch': B, 'fn_batch_size': f, 'batch_size': b, 'op': op, 'skip': draw(st.booleans()),
            'poison': draw(st.lists(st.integers(0, 9), max_size=3, unique=True)),
            'exc': draw(st.sampled_from(['ValueError', 'TypeError', 'InjectedError']))}
    if nb and draw(st.integers(0, 3)) == 0:
      case['bad_batches'] = draw(st.lists(st.integers(0, nb - 1), min_size=1, max_size=2))
    return case
  return s()


# ------------------------------------------------------------------------------------------------ data source failures
class FailingSeq:
  """Random-access sequence whose reads fail at given positions (a slice read fails if it covers a bad position)."""

  def __init__(self, data, bad, exc, no_slice=False):
    self.data, self.bad, self.exc = list(data), set(bad), exc
    self.no_slice = no_slice     # a source that supports integer indexing only (the case the read-ahead fallback exists for)
    self.reads = 0

  def __len__(self):
    return len(self.data)

  def __getitem__(self, i):
    self.reads += 1
    if isinstance(i, slice):
      if self.no_slice:
        raise TypeError(f'only integer indexing is supported, got {type(i)}')
      idx = range(*i.indices(len(self.data)))
      hit = [j for j in idx if j in self.bad]
      if hit:
        raise targets.EXC[self.exc](f'bad read at {hit[0]}')
      return self.data[i]
    if i in self.bad:
      raise targets.EXC[self.exc](f'bad read at {i}')
    return self.data[i]


class FailingAbcSeq(FailingSeq, collections.abc.Sequence):
  """The same failing source as a registered collections.abc.Sequence."""


class FailingList(list):
  """A list subclass whose reads go through an overridden __getitem__ (fails at given positions)."""

  def __init__(self, data, bad, exc, no_slice=False):
    super().__init__(data)
    self._inner = FailingSeq(data, bad, exc, no_slice)

  def __getitem__(self, i):
    return self._inner[i]

  def __iter__(self):
    return (self[i] for i in range(len(self)))


SEQ_KINDS = {'duck': FailingSeq, 'abc': FailingAbcSeq, 'list_subclass': FailingList}


def _not_multiple_of_5(x):
  return x % 5 != 0


def run_source(case):
  from ml_metrics._src.chainables import io, transform  # pylint: disable=g-import-not-at-top
  n, bad, exc, skip = case['n'], sorted(set(case['bad'])), case['exc'], case['skip']
  what = f'SequenceDataSource(range({n}) failing at {bad} with {exc}, ignore_error={skip}) shard={case["shard"]}'
  no_slice = case.get('no_slice', False)
  what += f' no_slice={no_slice} splits={case.get("splits")}'
  # the source skips failing reads itself (ignore_error on the source) or leaves them to the pipeline (iterate(ignore_error))
  src_skip = case.get('src_skip', skip)
  op = case.get('op', 'apply')
  what += f' source.ignore_error={src_skip} op={op}'
  recs = lambda a, b: [{'a': v} for v in range(a, b)]
  Seq = SEQ_KINDS[case.get('seq_kind', 'duck')]
  what += f' source kind={case.get("seq_kind", "duck")}'
  if case.get('splits'):
    # several sequences merged into one source; every sequence has its own failing positions (global numbering)
    cuts = [0] + sorted(min(c, n) for c in case['splits']) + [n]
    seqs = [Seq(recs(a, b), [p - a for p in bad if a <= p < b], exc, no_slice) for a, b in zip(cuts, cuts[1:])]
    src = io.SequenceDataSource.from_sequences(seqs, ignore_error=src_skip)
    plain = io.SequenceDataSource.from_sequences([list(range(a, b)) for a, b in zip(cuts, cuts[1:])])
  else:
    src = io.SequenceDataSource(Seq(recs(0, n), bad, exc, no_slice), ignore_error=src_skip)
    plain = io.SequenceDataSource(list(range(n)))
  if case['shard']:
    i, k = case['shard']
    src, plain = src.shard(i, k), plain.shard(i, k)
  mine = [int(v) for v in plain]            # the elements of this (shard of the) source when nothing fails
  lo, hi = (mine[0], mine[-1] + 1) if mine else (0, 0)
  t = transform.TreeTransform.new().data_source(src)
  sink = targets.ListSink()
  if op == 'apply':
    t = t.apply(targets.add1, input_keys='a')
    out_of = lambda v: v + 1
  elif op == 'assign':
    t = t.assign('b', fn=targets.add1, input_keys='a')
    out_of = lambda v: {'a': v, 'b': v + 1}
  elif op == 'filter':
    t = t.filter(_not_multiple_of_5, input_keys='a')
    out_of = lambda v: {'a': v}
  else:
    t = t.sink(sink)
    out_of = lambda v: {'a': v}
  kept = (lambda v: v % 5 != 0) if op == 'filter' else (lambda v: True)
  skippable = exc in ('ValueError', 'TypeError')
  got, err = [], []
  it = t.make().iterate(ignore_error=skip)
  try:
    for x in it:
      got.append(x)
  except Exception as e:  # pylint: disable=broad-exception-caught
    err.append(e)
  inrange_bad = [p for p in bad if lo <= p < hi]
  if not inrange_bad or ((skip or src_skip) and skippable):
    want = [out_of(v) for v in range(lo, hi) if v not in bad and kept(v)]
    if op == 'sink' and not err:
      check(sink.data == want, 'sink-saw-wrong-stream', f'{what}: sink holds {sink.data}, want {want}')
    check(not err, 'unexpected-error', lambda: f'{what}: raised {type(err[0]).__name__}: {err[0]}')
    check(got == want, 'skipping-loses-or-corrupts-elements', f'{what}: delivered {got}, want {want}')
  else:
    first = inrange_bad[0]
    check(bool(err), 'error-swallowed', f'{what}: read {first} fails but no error surfaced; delivered {got}')
    chain = _cause_chain(err[0])
    check(any(type(c) is targets.EXC[exc] for c in chain), 'original-exception-not-in-cause-chain', f'{what}: raised {[type(c).__name__ for c in chain]}')
    want = [out_of(v) for v in range(lo, first) if kept(v)]
    check(got == want, 'wrong-elements-before-first-error', f'{what}: delivered {got} before the error, want {want}')
  nt = bool(inrange_bad) and inrange_bad[0] < hi - 1
  return {'nontrivial': nt, 'classes': [f'source-skip-{src_skip}', f'iterate-skip-{skip}', f'source-op-{op}', f'exc-{exc}'] + (['adjacent-failures'] if any(b + 1 in bad for b in bad) else [])}


def strat_source(tier):
  @st.composite
  def s(draw):
    n = draw(st.one_of(st.integers(0, 12), st.integers(60, 200)))
    bad = draw(st.lists(st.integers(0, max(n - 1, 0)), max_size=4)) if n else []
    if bad and draw(st.booleans()):
      bad.append(min(bad[0] + 1, n - 1))
    k = draw(st.integers(2, 6))
    shard = draw(st.one_of(st.none(), st.tuples(st.integers(0, 2), st.just(3)).map(list), st.tuples(st.integers(0, k - 1), st.just(k)).map(list)))
    case = {'n': n, 'bad': bad, 'exc': draw(st.sampled_from(['ValueError', 'TypeError', 'KeyError', 'RuntimeError'])),
            'skip': draw(st.booleans()), 'shard': shard, 'no_slice': draw(st.sampled_from([False, False, True]))}
    if n and draw(st.integers(0, 3)) == 0:
      case['splits'] = draw(st.lists(st.integers(0, n), min_size=1, max_size=3))
    case['op'] = draw(st.sampled_from(['apply', 'assign', 'filter', 'sink']))
    case['seq_kind'] = draw(st.sampled_from(['duck', 'duck', 'abc', 'list_subclass']))
    if draw(st.integers(0, 9)) == 0:
      # a long run of consecutive failing reads (longer than 2**7) inside a long source
      case['n'] = 300
      a = draw(st.integers(0, 100))
      case['bad'] = list(range(a, a + draw(st.sampled_from([127, 128, 129, 150]))))
      case.pop('splits', None)
    case['src_skip'] = draw(st.sampled_from([case['skip'], case['skip'], not case['skip']]))
    return case
  return s()


def known_assign_batch_skip(scenario, case, v):
  """assign(batch_size=...) with error skipping: a failing call ends the re-batching generator; later batches are lost."""
  return (scenario == 'batching_options' and case['op'] == 'assign' and case['skip'] and case['batch_size'] > 0
          and v.kind in ('skipping-loses-or-corrupts-elements', 'assigned-value-misaligned-with-its-input'))


def known_rebatch_ends_on_upstream_error(scenario, case, v):
  """fn_batch_size / batch_size re-batching with error skipping: an unreadable input batch raises through the re-batching
  generator of the operator and ends it; every later row is silently lost."""
  return (scenario == 'batching_options' and case['skip'] and bool(case.get('bad_batches')) and (
      case['fn_batch_size'] > 0 or (case['op'] == 'assign' and case['batch_size'] > 0))
          and v.kind in ('skipping-loses-or-corrupts-elements', 'assigned-value-misaligned-with-its-input', 'wrong-batch-size'))


KNOWN = {'F-C12-assign-batch-skip': known_assign_batch_skip,
         'F-C12-rebatch-ends-on-upstream-error': known_rebatch_ends_on_upstream_error}

SCENARIOS = [
    Scenario('operator_failures', run_ops, strategy=strat_ops, budget={'quick': 2500, 'thorough': 30000},
             shards={'quick': 10, 'thorough': 16}, nondeterministic=True),
    Scenario('batching_options', run_batching, strategy=strat_batching, budget={'quick': 1500, 'thorough': 20000},
             shards={'quick': 3, 'thorough': 16},
             fuzz_runs={'thorough': 40000}, instrument=('ml_metrics._src.chainables.transform', 'ml_metrics._src.chainables.tree_fns', 'ml_metrics._src.chainables.tree', 'ml_metrics._src.utils.iter_utils')),
    Scenario('data_source_failures', run_source, strategy=strat_source, budget={'quick': 1500, 'thorough': 20000},
             shards={'quick': 3, 'thorough': 16},
             fuzz_runs={'thorough': 40000}, instrument=('ml_metrics._src.chainables.transform', 'ml_metrics._src.chainables.tree_fns', 'ml_metrics._src.chainables.tree', 'ml_metrics._src.utils.iter_utils')),
]
