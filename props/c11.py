"""C11 — merging is associative, order-insensitive and never damages its operands; result() is repeatable."""
from __future__ import annotations

import copy

from hypothesis import strategies as st

from vlib import metrics_reg as reg
from vlib.core import Scenario, Violation, check, crash
from props.c01 import entry_for, K3

PROPERTY = 'C11'
LEVEL = 'exploration'
RULE = ('algebra: (metric, configuration, 2..5 datasets some of them empty, a random binary bracketing and permutation) - all '
        'groupings/orders of the same states must agree, an empty state is neutral on both sides, operands keep their own result; '
        'histories: a generated sequence of new/add/merge(i<-j)/result operations over a pool of accumulators, each accumulator '
        'modelled by the list of rows it has absorbed, every result compared with the reference value of exactly that list; '
        'non-trivial = >= 3 states, or an empty state, or an add after a merge; distinct = distinct canonical case JSON'
        '; also: the directed history (an empty accumulator merges a filled one, then each side is updated and the other read), data shifted by 2**24 for the mean / variance family (tolerance 1e-5 on shifted data), one n-ary merge_states call over 2..40 states as list/tuple/iterator/generator with an operand-intact check')
ASSUMPTIONS = [
    'same input preconditions as C01 (explicit vocab, equal sampler seeds, non-negative MinMaxAndCount input)',
    'results are only read from accumulators that absorbed >= 1 row (several metrics define no value for no data)',
    'TopKRetrieval is exercised without the three metrics of open finding F-C01-topk-truncation (state algebra is metric-independent)',
    'order-carrying accumulators are compared with the concatenation in merge order; the reservoir sampler by size/membership/count',
]


def _guard(fn, what):
  try:
    return fn()
  except Violation:
    raise
  except Exception as e:  # pylint: disable=broad-exception-caught
    raise crash(e, what) from e


class Handle:
  """Uniform view of one accumulator through either API."""

  def __init__(self, e, cfg, api):
    self.e, self.cfg, self.api = e, cfg, api
    if api == 'metric':
      self.obj = e.make(cfg)
    else:
      self.fn = e.agg(cfg)
      self.state = self.fn.create_state()

  def add(self, rows):
    args = self.e.args(self.cfg, rows)
    if self.api == 'metric':
      self.obj.add(*args)
    else:
      self.state = self.fn.update_state(self.state, *args)

  def merge(self, other):
    if self.api == 'metric':
      self.obj.merge(other.obj)
    else:
      self.state = self.fn.merge_states([self.state, other.state])

  def raw(self):
    return self.obj if self.api == 'metric' else self.state

  def result(self):
    if self.api == 'metric':
      return self.e.norm(self.cfg, self.obj.result())
    return self.e.norm(self.cfg, self.fn.get_result(self.state))


def _expect(e, cfg, rows, api):
  """Reference value for an accumulator that absorbed exactly `rows` (twin accumulator where no closed form exists)."""
  r = e.ref(cfg, rows)
  if r is not None:
    return r
  t = Handle(e, cfg, api)
  t.add(rows)
  return t.result()


def _check_value(e, cfg, h, rows, what, kind):
  if e.compare == 'sampler':
    msg = e.sampler_ok(cfg, h.raw(), rows)
    check(msg is None, f'{kind}:{e.name}', f'{what}: {msg}')
    return
  got = _guard(h.result, f'{what}: result')
  want = _expect(e, cfg, rows, h.api)
  if isinstance(got, dict) and isinstance(want, dict):
    for k in got:
      check(k in want and e.equal(cfg, got[k], want[k]), f'{kind}:{e.name}:{k}',
            f'{what}: {k} = {got[k]!r}, expected for rows {rows}: {want.get(k)!r}')
  else:
    check(e.equal(cfg, got, want), f'{kind}:{e.name}', f'{what}: result {got!r}, expected for rows {rows}: {want!r}')


def _tree_eval(tree, leaves, e, cfg, api, what):
  """tree: int leaf index or [left, right]; returns (handle, rows in merge order). Builds fresh accumulators."""
  if isinstance(tree, int):
    h = Handle(e, cfg, api)
    if leaves[tree]:
      _guard(lambda: h.add(leaves[tree]), f'{what}: add {leaves[tree]}')
    return h, list(leaves[tree])
  lh, lrows = _tree_eval(tree[0], leaves, e, cfg, api, what)
  rh, rrows = _tree_eval(tree[1], leaves, e, cfg, api, what)
  _guard(lambda: lh.merge(rh), f'{what}: merge')
  return lh, lrows + rrows


def run_algebra(case):
  e = entry_for(case['entry'])
  cfg, api, leaves = case['cfg'], case['api'], case['leaves']
  what = f'{e.name}({cfg}) api={api} states={leaves}'
  total = [r for l in leaves for r in l]
  # every bracketing / permutation of the same states agrees (with the reference of the merged rows)
  for tree in case['trees']:
    h, rows = _tree_eval(tree, leaves, e, cfg, api, what)
    if rows:
      _check_value(e, cfg, h, rows if e.order_carrying else (rows if e.compare == 'sampler' else total),
                   f'{what}: bracketing {tree}', 'grouping-or-order-changes-result')
  # neutral element on either side, operands undamaged, no leaking of later updates
  for i, rows in enumerate(leaves):
    if not rows:
      continue
    x, empty = Handle(e, cfg, api), Handle(e, cfg, api)
    x.add(rows)
    _guard(lambda: x.merge(empty), f'{what}: merge(x, empty) with x={rows}')
    _check_value(e, cfg, x, rows, f'{what}: merge(x={rows}, empty)', 'empty-not-right-identity')
    y, empty2 = Handle(e, cfg, api), Handle(e, cfg, api)
    y.add(rows)
    _guard(lambda: empty2.merge(y), f'{what}: merge(empty, x) with x={rows}')
    _check_value(e, cfg, empty2, rows, f'{what}: merge(empty, x={rows})', 'empty-not-left-identity')
    _check_value(e, cfg, y, rows, f'{what}: x={rows} after merge(empty, x)', 'merge-damages-operand')
  for i in range(len(leaves) - 1):
    a_rows, b_rows = leaves[i], leaves[i + 1]
    if not a_rows or not b_rows:
      continue
    a, b = Handle(e, cfg, api), Handle(e, cfg, api)
    a.add(a_rows)
    b.add(b_rows)
    _guard(lambda: a.merge(b), f'{what}: merge({a_rows} <- {b_rows})')
    _check_value(e, cfg, b, b_rows, f'{what}: operand {b_rows} after being merged into {a_rows}', 'merge-damages-operand')
    extra = case['extra']
    if extra:
      _guard(lambda: a.add(extra), f'{what}: add after merge')
      _check_value(e, cfg, b, b_rows, f'{what}: operand {b_rows} after the receiver got {extra}', 'update-leaks-into-operand')
      _check_value(e, cfg, a, a_rows + b_rows + extra, f'{what}: receiver after merge then add', 'add-after-merge-wrong')
      _guard(lambda: b.add(extra), f'{what}: add to operand after merge')
      _check_value(e, cfg, a, a_rows + b_rows + extra, f'{what}: receiver after the operand got {extra}', 'update-leaks-into-receiver')
      _check_value(e, cfg, b, b_rows + extra, f'{what}: operand after its own add', 'add-after-merge-wrong')
  # one n-ary merge_states call over many states, handed over as a list / tuple / one-shot iterator / generator: the result
  # covers every state and only the first state may have been modified
  if api == 'agg' and case.get('nary'):
    m, as_ = case['nary']
    handles, rowsets = [], []
    for j in range(m):
      h = Handle(e, cfg, api)
      rows = leaves[j % len(leaves)]
      if rows:
        h.add(rows)
      handles.append(h)
      rowsets.append(list(rows))
    states = [h.state for h in handles]
    given = {'list': lambda: states, 'tuple': lambda: tuple(states), 'iter': lambda: iter(states), 'gen': lambda: (x for x in states)}[as_]()
    fn = handles[0].fn
    merged = _guard(lambda: fn.merge_states(given), f'{what}: merge_states over {m} states given as {as_}')
    allrows = [r for rs in rowsets for r in rs]
    if allrows:
      mh = Handle(e, cfg, api)
      mh.state = merged
      _check_value(e, cfg, mh, allrows, f'{what}: merge_states over {m} states given as {as_}', 'grouping-or-order-changes-result')
      for j in range(1, m):
        if rowsets[j]:
          _check_value(e, cfg, handles[j], rowsets[j], f'{what}: state {j} of {m} after the n-ary merge_states ({as_})', 'merge-damages-operand')
  n_nonempty = sum(1 for l in leaves if l)
  cl = [e.name, f'api-{api}'] + ([f'nary-{case["nary"][1]}'] if api == 'agg' and case.get('nary') else [])
  if any(not l for l in leaves):
    cl.append('empty-state')
  return {'nontrivial': len(leaves) >= 3 or any(not l for l in leaves) or bool(case['extra']) and n_nonempty >= 2, 'classes': cl}


def _trees(draw, n, k):
  """k random (permutation, bracketing) trees over leaves 0..n-1."""
  out = []
  for _ in range(k):
    items = list(draw(st.permutations(list(range(n)))))
    while len(items) > 1:
      i = draw(st.integers(0, len(items) - 2))
      items[i:i + 2] = [[items[i], items[i + 1]]]
    out.append(items[0])
  return out


def _cfg_for(draw, e):
  cfg = draw(e.cfg())
  if e.name == 'TopKRetrieval':
    ms = [m for m in cfg['metrics'] if m not in K3] or ['precision']
    cfg = dict(cfg, metrics=ms)
  return cfg


def strat_algebra(tier):
  maxrows = 5 if tier == 'quick' else 10

  @st.composite
  def s(draw):
    e = entry_for(draw(st.sampled_from(reg.ENTRIES)).name)
    cfg = _cfg_for(draw, e)
    n = draw(st.integers(2, 5))
    leaves = [draw(st.one_of(st.just([]), st.lists(e.row(cfg), min_size=1, max_size=maxrows),
                             st.lists(e.row(cfg), min_size=1, max_size=maxrows))) for _ in range(n)]
    if not any(leaves):
      leaves[0] = draw(st.lists(e.row(cfg), min_size=1, max_size=maxrows))
    trees = _trees(draw, n, 3)
    extra = draw(st.lists(e.row(cfg), min_size=0, max_size=3))
    return {'entry': e.name, 'cfg': cfg, 'api': draw(st.sampled_from(list(e.apis))), 'leaves': leaves, 'trees': trees,
            'extra': extra, 'nary': [draw(st.sampled_from([2, 3, 5, 16, 17, 18, 33, 40])), draw(st.sampled_from(['list', 'tuple', 'iter', 'gen']))]}
  return s()


# ------------------------------------------------------------------------------------------ histories
def run_history(case):
  e = entry_for(case['entry'])
  cfg, api = case['cfg'], case['api']
  what = f'{e.name}({cfg}) api={api}'
  pool, model = [], []
  add_after_merge = False
  merged = set()
  for step, op in enumerate(case['ops']):
    kind = op[0]
    w = f'{what} step {step} {op} (models before: {model})'
    if kind == 'new' or not pool:
      pool.append(Handle(e, cfg, api))
      model.append([])
      continue
    i = op[1] % len(pool)
    if kind == 'add':
      _guard(lambda: pool[i].add(op[2]), w)
      model[i] = model[i] + list(op[2])
      add_after_merge = add_after_merge or i in merged
    elif kind == 'merge':
      if len(pool) < 2:
        continue
      j = (i + 1 + op[2] % (len(pool) - 1)) % len(pool)
      _guard(lambda: pool[i].merge(pool[j]), w)
      model[i] = model[i] + model[j]
      merged.update((i, j))
    elif kind == 'result':
      if model[i]:
        _check_value(e, cfg, pool[i], model[i], w, 'result-not-function-of-absorbed-rows')
        if api == 'metric' and e.name in ('Histogram', 'CalibrationHistogram'):
          # these document that result() hands out copies: scribbling on a returned array must not reach the accumulator
          r = pool[i].obj.result()
          for arr in r:
            arr[...] = 77
          _check_value(e, cfg, pool[i], model[i], w + ' (after overwriting the returned arrays)', 'result-not-a-copy')
        if op[2]:   # read twice: repeatable
          _check_value(e, cfg, pool[i], model[i], w + ' (second read)', 'result-not-repeatable')
    # after every step: every non-empty accumulator still reports exactly its own rows
    if step == len(case['ops']) - 1 or kind == 'merge':
      for k, h in enumerate(pool):
        if model[k]:
          _check_value(e, cfg, h, model[k], f'{w}: accumulator {k}', 'result-not-function-of-absorbed-rows')
  return {'nontrivial': add_after_merge or len(pool) >= 3, 'classes': [e.name, f'api-{api}'] + (['add-after-merge'] if add_after_merge else [])}


def strat_history(tier):
  maxops = 12 if tier == 'quick' else 30

  @st.composite
  def s(draw):
    e = entry_for(draw(st.sampled_from(reg.ENTRIES)).name)
    cfg = _cfg_for(draw, e)
    rows = st.lists(e.row(cfg), min_size=1, max_size=4)
    op = st.one_of(st.just(['new']), st.tuples(st.just('add'), st.integers(0, 5), rows).map(list),
                   st.tuples(st.just('add'), st.integers(0, 5), rows).map(list),
                   st.tuples(st.just('merge'), st.integers(0, 5), st.integers(0, 5)).map(list),
                   st.tuples(st.just('result'), st.integers(0, 5), st.booleans()).map(list))
    ops = [['new'], ['new']] + draw(st.lists(op, min_size=2, max_size=maxops))
    if draw(st.integers(0, 3)) == 0:
      # an empty accumulator takes over a filled one, then each side is updated and the other one read
      ops[2:2] = [['add', 1, draw(rows)], ['merge', 0, 0], ['add', 0, draw(rows)], ['result', 1, False], ['add', 1, draw(rows)],
                  ['result', 0, True]]
    return {'entry': e.name, 'cfg': cfg, 'api': draw(st.sampled_from(list(e.apis))), 'ops': ops}
  return s()


SCENARIOS = [
    Scenario('algebra', run_algebra, strategy=strat_algebra, budget={'quick': 4000, 'thorough': 50000},
             shards={'quick': 8, 'thorough': 16}),
    Scenario('histories', run_history, strategy=strat_history, budget={'quick': 3000, 'thorough': 40000},
             shards={'quick': 8, 'thorough': 16}),
]
