"""C09 — sharding partitions a data source exactly; merged sequences behave like the concatenation."""
from __future__ import annotations

import itertools
import pickle

from hypothesis import strategies as st
import numpy as np

from vlib.core import Scenario, Violation, check, crash

PROPERTY = 'C09'
LEVEL = 'exploration'
RULE = ('shard cases = (source kind, n, shard-count chain k1[,k2[,k3]], per-level offsets) enumerated exhaustively '
        'for small n and drawn by Hypothesis up to n=500/depth 4; merged-sequence cases = (composition of range(n) '
        'into possibly-empty sub-sequences, container kind, read-ahead size) enumerated for n<=5/8 with every index '
        'and every (start, stop) slice checked against a Python list; non-trivial = remainder != 0, k > n, depth >= 2, '
        'an offset > 0, an empty sub-sequence, or a negative index; distinct = distinct canonical case JSON'
        '; also: sub-shards of offset shards partition them, merged groups and slice-streaming sources as sub-sequences, index-only sources, iterator checkpoint/restore for every shard kind, numpy integer shard indices, sources of up to 520 elements')
ASSUMPTIONS = [
    'the reference for MergedSequences is the Python list of the concatenated elements (indexing, slicing without step, iteration, len)',
    'offsets passed to shard() lie in 0..len(shard) (what SequenceIterator.state produces)',
]


def _guard(fn, what):
  try:
    return fn()
  except Violation:
    raise
  except Exception as e:  # pylint: disable=broad-exception-caught
    raise crash(e, what) from e


# --------------------------------------------------------------------------- sharding
class _IndexOnly:
  """A random-access source that supports len() and integer indexing, not slicing."""

  def __init__(self, data):
    self._data = list(data)

  def __len__(self):
    return len(self._data)

  def __getitem__(self, i):
    if isinstance(i, slice):
      raise TypeError(f'only integer indexing is supported, got {type(i)}')
    return self._data[i]


def _make_source(kind, n, splits):
  from ml_metrics._src.chainables import io  # pylint: disable=g-import-not-at-top
  data = list(range(n))
  if kind == 'seq':
    return io.SequenceDataSource(data)
  if kind == 'seq_array':
    return io.SequenceDataSource(np.arange(n))
  if kind == 'seq_indexonly':
    return io.SequenceDataSource(_IndexOnly(data))      # integer indexing only: every slice read falls back to single reads
  if kind == 'multi_indexonly':
    cuts = [0] + sorted(min(c, n) for c in splits) + [n]
    return io.SequenceDataSource.from_sequences([_IndexOnly(data[a:b]) for a, b in zip(cuts, cuts[1:])])
  if kind == 'multi':
    cuts = [0] + sorted(min(c, n) for c in splits) + [n]
    return io.SequenceDataSource.from_sequences([data[a:b] for a, b in zip(cuts, cuts[1:])])
  if kind == 'iterable':
    return io.ShardedIterable(data)
  if kind == 'iterable_range':
    return io.ShardedIterable(range(n))
  raise ValueError(kind)


def _elements(src):
  return [int(x) for x in src]


def _check_partition(parent_elems, shards, what, contiguous, roundtrip):
  """shards: list of shard sources of one parent."""
  lists = [_guard(lambda s=s: _elements(s), f'{what}: iterating shard {i}') for i, s in enumerate(shards)]
  flat = sorted(x for l in lists for x in l)
  check(flat == sorted(parent_elems), 'not-a-partition',
        lambda: f'{what}: parent {parent_elems} but shards {lists}')
  for i, l in enumerate(lists):
    check(l == sorted(l) and len(set(l)) == len(l), 'order-not-preserved', f'{what}: shard {i} = {l}')
    # order preserved relative to the parent
    pos = [parent_elems.index(x) for x in l]
    check(pos == sorted(pos), 'order-not-preserved', f'{what}: shard {i} = {l} parent {parent_elems}')
  sizes = [len(l) for l in lists]
  check(max(sizes) - min(sizes) <= 1, 'unbalanced-shards', f'{what}: sizes {sizes}')
  if contiguous:
    check([x for l in lists for x in l] == parent_elems, 'not-contiguous', f'{what}: {lists} vs {parent_elems}')
    for i, (s, l) in enumerate(zip(shards, lists)):
      check(_guard(lambda s=s: len(s), f'{what}: len(shard {i})') == len(l), 'wrong-len',
            f'{what}: len(shard {i}) = {len(s)} but it yields {l}')
  for i, (s, l) in enumerate(zip(shards, lists)):
    state = s.state
    if roundtrip:
      state = pickle.loads(pickle.dumps(state))
    rebuilt = _guard(lambda s=s, state=state: _elements(s.from_state(state)), f'{what}: from_state(shard {i})')
    check(rebuilt == l, 'state-rebuild-differs', f'{what}: shard {i} yields {l}, from_state({state}) yields {rebuilt}')
    # rebuilding from the *root* source gives the same shard too
  # an iterator of a shard records where it is: after p elements, its state rebuilds exactly the remaining elements
  # (through the iterator, through the shard and through a second restore in a row)
  for i, (s, l) in enumerate(zip(shards, lists)):
    for p in sorted({0, 1, len(l) // 2, max(len(l) - 1, 0), len(l)}):
      if p > len(l):
        continue
      it = iter(s)
      head = _guard(lambda: [int(next(it)) for _ in range(p)], f'{what}: first {p} elements of shard {i}')
      st_ = _guard(lambda: it.state, f'{what}: iterator state of shard {i} after {p} elements')
      if roundtrip:
        st_ = pickle.loads(pickle.dumps(st_))
      rest = _guard(lambda: [int(x) for x in it.from_state(st_)], f'{what}: iterator.from_state({st_}) of shard {i}')
      check(head + rest == l, 'iterator-state-rebuild-differs',
            f'{what}: shard {i} yields {l}; after {p} elements iterator.from_state({st_}) yields {rest}')
      it2 = it.from_state(st_)
      mid = [int(x) for _, x in zip(range(1), it2)]
      rest2 = _guard(lambda: [int(x) for x in it2.from_state(it2.state)], f'{what}: second restore of shard {i}')
      check(head + mid + rest2 == l, 'iterator-state-rebuild-differs',
            f'{what}: shard {i} yields {l}; {p} elements, restore, {len(mid)} element, restore yields {head}+{mid}+{rest2}')
  return lists


def _idx(case, v):
  """Shard indices / counts as the caller may hold them: Python ints or (narrow, unsigned) numpy integers."""
  kind = case.get('index_kind', 'int')
  if kind == 'uint8_index':      # a narrow unsigned *index* (the count stays a Python int); only for sequence sources
    return v
  return v if kind == 'int' else getattr(np, kind)(v)


def run_shard(case):
  kind, n, ks = case['kind'], case['n'], case['ks']
  root = _guard(lambda: _make_source(kind, n, case.get('splits', [])), 'building source')
  contiguous = not kind.startswith('iterable')
  root_elems = _guard(lambda: _elements(root), 'iterating root')
  check(root_elems == list(range(n)), 'root-differs', f'{root_elems}')
  level = [(root, root_elems, 'root')]
  for depth, k in enumerate(ks):
    nxt = []
    for src, elems, name in level:
      narrow = case.get('index_kind') == 'uint8_index' and contiguous
      shards = [_guard(lambda i=i: src.shard(np.uint8(i) if narrow else _idx(case, i), _idx(case, k)), f'{name}.shard({i},{k})')
                for i in range(k)]
      lists = _check_partition(elems, shards, f'{kind} n={n} {name}.shard(*,{k})', contiguous,
                               case.get('pickle', False))
      for i, (s, l) in enumerate(zip(shards, lists)):
        nxt.append((s, l, f'{name}.shard({i},{k})'))
        # rebuilding from the root's from_state must equal the shard as well
        rebuilt = _guard(lambda s=s: _elements(root.from_state(s.state)), f'root.from_state({s.state})')
        check(rebuilt == l, 'state-rebuild-differs',
              f'{name}.shard({i},{k}) yields {l}, root.from_state(state) yields {rebuilt}')
    level = nxt
  # offsets (SequenceDataSource only: shard(i, k, offset) == shard(i, k)[offset:])
  if contiguous and ks and case.get('offsets'):
    k = ks[-1]
    # parents of the last level
    parents = [(root, root_elems, 'root')]
    for kk in ks[:-1]:
      parents = [(s.shard(i, kk), None, f'{nm}.shard({i},{kk})') for s, _, nm in parents for i in range(kk)]
    for src, _, name in parents:
      for i in range(k):
        base = _elements(src.shard(i, k))
        for off in range(len(base) + 1):
          sh = _guard(lambda: src.shard(i, k, off), f'{name}.shard({i},{k},{off})')
          got = _guard(lambda: _elements(sh), f'iterating {name}.shard({i},{k},{off})')
          check(got == base[off:], 'offset-differs', f'{name}.shard({i},{k},{off}) yields {got}, want {base[off:]}')
          check(len(sh) == len(got), 'wrong-len', f'len({name}.shard({i},{k},{off})) = {len(sh)}, yields {got}')
          rebuilt = _guard(lambda: _elements(root.from_state(sh.state)), f'from_state({sh.state})')
          check(rebuilt == got, 'state-rebuild-differs', f'{name}.shard({i},{k},{off}): {got} vs from_state {rebuilt}')
  cl = [f'kind-{kind}', f'depth-{len(ks)}']
  nt = False
  if ks:
    if n % ks[0]:
      cl.append('remainder'); nt = True
    if ks[0] > n:
      cl.append('k>n'); nt = True
    if len(ks) >= 2:
      nt = True
    if case.get('offsets') and contiguous and n:
      cl.append('offsets'); nt = True
  return {'nontrivial': nt, 'classes': cl}


def enum_shard(tier):
  nmax = 12 if tier == 'quick' else 24
  for kind in ('seq', 'multi', 'iterable', 'seq_array', 'iterable_range', 'seq_indexonly'):
    for n in range(nmax + 1):
      for k in range(1, n + 5):
        yield {'kind': kind, 'n': n, 'ks': [k], 'offsets': True, 'splits': [n // 3, n // 2], 'pickle': n % 2 == 0}
  n2 = 8 if tier == 'quick' else 14
  for kind in ('seq', 'multi', 'iterable'):
    for n in range(n2 + 1):
      for k1 in range(1, 7):
        for k2 in range(1, 7):
          yield {'kind': kind, 'n': n, 'ks': [k1, k2], 'offsets': n <= 10, 'splits': [1, n // 2]}


def strat_shard(tier):
  nmax = 200 if tier == 'quick' else 500

  @st.composite
  def s(draw):
    kind = draw(st.sampled_from(['seq', 'multi', 'iterable', 'seq_array', 'seq_indexonly', 'multi_indexonly']))
    n = draw(st.one_of(st.integers(0, 40), st.integers(0, nmax)))
    depth = draw(st.integers(1, 4))
    ks = [draw(st.integers(1, 7)) for _ in range(depth)]
    if depth >= 3:
      ks = [min(k, 4) for k in ks]
    splits = sorted(draw(st.lists(st.integers(0, n), max_size=4)))
    ik = draw(st.sampled_from(['int', 'int', 'int64', 'int32', 'uint8_index']))
    if ik == 'uint8_index' and draw(st.booleans()):
      n, ks = draw(st.integers(256, 520)), ks[:1]      # positions beyond what the index type itself could hold
      splits = [min(c, n) for c in splits]
    return {'kind': kind, 'n': n, 'ks': ks, 'offsets': n <= 60 and depth <= 2, 'splits': splits,
            'pickle': draw(st.booleans()), 'index_kind': ik}
  return s()


def run_offset_chain(case):
  """Shards of shards where every level may have been restored at an offset: elements, len and recorded state."""
  kind, n = case['kind'], case['n']
  root = _guard(lambda: _make_source(kind, n, case.get('splits', [])), 'building source')
  s, name = root, 'root'
  for i, k, off in case['chain']:
    # the k shards of this (possibly offset) shard partition exactly what it holds, in order
    parent = _guard(lambda: _elements(s), f'iterating {name}')
    parts = [_guard(lambda j=j: _elements(s.shard(j, k)), f'{name}.shard({j},{k})') for j in range(k)]
    check([x for part in parts for x in part] == parent, 'not-a-partition',
          f'{name} holds {parent} but its {k} shards hold {parts}')
    plain = parts[i]
    off = min(off, len(plain))
    nxt = _guard(lambda: s.shard(i, k, off), f'{name}.shard({i},{k},{off})')
    name = f'{name}.shard({i},{k},{off})'
    got = _guard(lambda: _elements(nxt), f'iterating {name}')
    check(got == plain[off:], 'offset-differs', f'{name} yields {got}, want {plain[off:]}')
    check(len(nxt) == len(got), 'wrong-len', f'len({name}) = {len(nxt)} but it yields {got}')
    s = nxt
  want = _elements(s)
  state = pickle.loads(pickle.dumps(s.state)) if case.get('pickle') else s.state
  for who, src in (('the shard', s), ('the root source', root)):
    rebuilt = _guard(lambda: _elements(src.from_state(state)), f'{who}.from_state({state})')
    check(rebuilt == want, 'state-rebuild-differs', f'{name} yields {want}, {who}.from_state({state}) yields {rebuilt}')
  # a restored iterator continues: iterate p elements, take the state, rebuild, the rest must follow
  p = min(case.get('consume', 0), len(want))
  it = iter(s)
  head = [int(next(it)) for _ in range(p)]
  rest = _guard(lambda: [int(x) for x in it.from_state(it.state)], f'{name}: iterator.from_state after {p} elements')
  check(head + rest == want, 'iterator-state-rebuild-differs', f'{name}: {head} + {rest} != {want}')
  nt = len(case['chain']) >= 2 or any(o for _, _, o in case['chain'])
  return {'nontrivial': nt, 'classes': [f'kind-{kind}', f'offset-chain-{len(case["chain"])}']}


def strat_offset_chain(tier):
  @st.composite
  def s(draw):
    n = draw(st.one_of(st.integers(0, 30), st.integers(60, 200)))
    depth = draw(st.integers(1, 4))
    chain = []
    for _ in range(depth):
      k = draw(st.integers(1, 4))
      chain.append([draw(st.integers(0, k - 1)), k, draw(st.sampled_from([0, 0, 1, 2, 5]))])
    return {'kind': draw(st.sampled_from(['seq', 'multi', 'seq_array'])), 'n': n, 'chain': chain,
            'splits': sorted(draw(st.lists(st.integers(0, n), max_size=3))), 'pickle': draw(st.booleans()),
            'consume': draw(st.integers(0, 5))}
  return s()


# --------------------------------------------------------------------------- merged sequences
def _container(kind, vals):
  if kind == 'list':
    return list(vals)
  if kind == 'tuple':
    return tuple(vals)
  if kind == 'array':
    return np.array(vals, dtype=np.int64)
  if kind == 'range':
    return range(vals[0], vals[0] + len(vals)) if vals else range(0)
  if kind == 'merged':
    # an already merged group as a sub-sequence: its slices are iterators (no len())
    from ml_metrics._src.utils import iter_utils  # pylint: disable=g-import-not-at-top
    h = len(vals) // 2
    return iter_utils.MergedSequences([list(vals[:h]), list(vals[h:])])
  if kind == 'lazy':
    return _LazySliceSeq(vals)
  raise ValueError(kind)


class _LazySliceSeq:
  """A random-access source that streams its slices: seq[a:b] is a generator."""

  def __init__(self, vals):
    self._vals = list(vals)

  def __len__(self):
    return len(self._vals)

  def __getitem__(self, i):
    if isinstance(i, slice):
      return (v for v in self._vals[i])
    return self._vals[i]


def _compositions(n, m):
  """All ways to cut range(n) into m consecutive (possibly empty) pieces, as cut points."""
  for cuts in itertools.combinations_with_replacement(range(n + 1), m - 1):
    yield list(cuts)


def run_merged(case):
  from ml_metrics._src.utils import iter_utils  # pylint: disable=g-import-not-at-top
  n, cuts, kinds, ra = case['n'], case['cuts'], case['kinds'], case['read_ahead']
  ref = list(range(n))
  bounds = [0] + list(cuts) + [n]
  parts = [ref[a:b] for a, b in zip(bounds, bounds[1:])]
  seqs = [_container(kinds[i % len(kinds)], p) for i, p in enumerate(parts)]
  what = f'MergedSequences(parts={parts}, max_batch_size={ra})'
  m = _guard(lambda: iter_utils.MergedSequences(seqs, ra), what)
  check(_guard(lambda: len(m), f'len({what})') == n, 'wrong-len', f'{what}: len {len(m)} != {n}')
  got = _guard(lambda: [int(x) for x in m], f'iter({what})')
  check(got == ref, 'iteration-differs', f'{what}: iter gives {got}')
  idxs = case.get('indices')
  if idxs is None:
    idxs = range(-n - 2, n + 2)
  for i in idxs:
    try:
      want = ref[i]
    except IndexError:
      want = IndexError
    try:
      g = m[i]
      g = int(g)
    except IndexError:
      g = IndexError
    except Exception as e:  # pylint: disable=broad-exception-caught
      raise crash(e, f'{what}[{i}]') from e
    check(g == want, 'getitem-differs',
          f'{what}[{i}] = {"IndexError" if g is IndexError else g}, list gives {"IndexError" if want is IndexError else want}')
  slices = case.get('slices')
  if slices is None:
    pts = [None] + list(range(-n - 2, n + 3))
    slices = [(a, b) for a in pts for b in pts]
  for a, b in slices:
    want = ref[a:b]
    g = _guard(lambda: [int(x) for x in m[a:b]], f'{what}[{a}:{b}]')
    check(g == want, 'slice-differs', f'{what}[{a}:{b}] = {g}, list gives {want}')
  cl = []
  nt = False
  if any(not p for p in parts):
    cl.append('empty-subsequence'); nt = True
  if len(parts) > 1:
    cl.append('multi'); nt = nt or n > 0
  if ra < n:
    cl.append('readahead<n')
  return {'nontrivial': nt, 'classes': cl, 'extra': {'index_and_slice_evaluations': len(list(idxs)) + len(slices)}}


def enum_merged(tier):
  nmax = 5 if tier == 'quick' else 8
  for n in range(nmax + 1):
    for m in range(1, 6):
      for ci, cuts in enumerate(_compositions(n, m)):
        for ra in ((1, 2, 3, 64) if n <= 6 else (2, 64)):
          kinds = [['list'], ['tuple', 'list'], ['array'], ['range', 'array', 'list']][(ci + ra) % 4]
          yield {'n': n, 'cuts': cuts, 'kinds': kinds, 'read_ahead': ra}


def strat_merged(tier):
  nmax = 150 if tier == 'quick' else 400

  @st.composite
  def s(draw):
    n = draw(st.integers(0, nmax))
    m = draw(st.integers(1, 8))
    cuts = sorted(draw(st.lists(st.integers(0, n), min_size=m - 1, max_size=m - 1)))
    kinds = draw(st.lists(st.sampled_from(['list', 'tuple', 'array', 'range', 'merged', 'lazy']), min_size=1, max_size=3))
    ra = draw(st.sampled_from([0, 1, 2, 3, 7, 64, 100]))
    idx = st.integers(-n - 3, n + 3)
    indices = draw(st.lists(idx, max_size=12))
    sl = st.one_of(st.none(), idx)
    slices = draw(st.lists(st.tuples(sl, sl), max_size=12))
    return {'n': n, 'cuts': cuts, 'kinds': kinds, 'read_ahead': ra, 'indices': indices,
            'slices': [list(x) for x in slices]}
  return s()


def decode_merged(fdp):
  n = fdp.ConsumeIntInRange(0, 60)
  m = fdp.ConsumeIntInRange(1, 8)
  cuts = sorted(fdp.ConsumeIntInRange(0, n) for _ in range(m - 1))
  kinds = [('list', 'tuple', 'array', 'range')[fdp.ConsumeIntInRange(0, 3)] for _ in range(fdp.ConsumeIntInRange(1, 3))]
  ra = (0, 1, 2, 3, 7, 64, 100)[fdp.ConsumeIntInRange(0, 6)]
  indices, slices = [], []

  def idx():
    v = fdp.ConsumeIntInRange(0, 2 * n + 7)
    return None if v == 2 * n + 7 else v - n - 3
  while fdp.remaining_bytes() and len(indices) + len(slices) < 16:
    if fdp.ConsumeBool():
      i = idx()
      indices.append(0 if i is None else i)
    else:
      slices.append([idx(), idx()])
  return {'n': n, 'cuts': cuts, 'kinds': kinds, 'read_ahead': ra, 'indices': indices, 'slices': slices}


def decode_offset_chain(fdp):
  n = fdp.ConsumeIntInRange(0, 80)
  chain = []
  for _ in range(fdp.ConsumeIntInRange(1, 4)):
    k = fdp.ConsumeIntInRange(1, 4)
    chain.append([fdp.ConsumeIntInRange(0, k - 1), k, fdp.ConsumeIntInRange(0, 5)])
  return {'kind': ('seq', 'multi', 'seq_array')[fdp.ConsumeIntInRange(0, 2)], 'n': n, 'chain': chain,
          'splits': sorted(fdp.ConsumeIntInRange(0, n) for _ in range(fdp.ConsumeIntInRange(0, 3))),
          'pickle': fdp.ConsumeBool(), 'consume': fdp.ConsumeIntInRange(0, 5)}


_FUZZ_MODS = ('ml_metrics._src.utils.iter_utils', 'ml_metrics._src.chainables.io')

SCENARIOS = [
    Scenario('shard_exhaustive', run_shard, enumerate=enum_shard, budget={'quick': 1, 'thorough': 1},
             shards={'quick': 6, 'thorough': 16}),
    Scenario('shard_hyp', run_shard, strategy=strat_shard, budget={'quick': 600, 'thorough': 8000},
             shards={'quick': 3, 'thorough': 16}),
    Scenario('offset_chain', run_offset_chain, strategy=strat_offset_chain, budget={'quick': 1500, 'thorough': 20000},
             shards={'quick': 2, 'thorough': 16}, decode=decode_offset_chain, fuzz_runs={'quick': 4000, 'thorough': 300000},
             instrument=_FUZZ_MODS),
    Scenario('merged_exhaustive', run_merged, enumerate=enum_merged, budget={'quick': 1, 'thorough': 1},
             shards={'quick': 5, 'thorough': 16}),
    Scenario('merged_hyp', run_merged, strategy=strat_merged, budget={'quick': 1500, 'thorough': 20000},
             shards={'quick': 2, 'thorough': 16}, decode=decode_merged, fuzz_runs={'quick': 4000, 'thorough': 300000},
             instrument=_FUZZ_MODS),
]
