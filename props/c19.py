"""C19 — re-batching conserves rows, order and column alignment."""
from __future__ import annotations

import itertools

from hypothesis import strategies as st
import numpy as np

from vlib.core import Scenario, Violation, check, crash

PROPERTY = 'C19'
LEVEL = 'exploration'
RULE = ('case = (input batch-size sequence, target size, #columns, container kind, pad, num_columns given?) '
        'enumerated exhaustively for short sequences and drawn by Hypothesis for longer ones, plus the same '
        'streams pushed through TreeTransform apply/select/batch re-batching options; non-trivial = some input '
        'batch larger and some smaller than the target and total rows not a multiple of the target; distinct = '
        'distinct canonical case JSON'
        '; also: 2-d array columns, row-dropping / row-duplicating batched functions, fn_batch_size == batch_size, runs of 63..150 tiny input batches, input batches compared before/after and re-batched a second time, a pad value of 0')
ASSUMPTIONS = [
    'cell value of row i column j is i*8+j so misalignment, loss, duplication and reordering are all visible',
    'all columns of an input batch have equal length (documented precondition: heterogeneous columns raise)',
]

PAD = -1


def _mk(kind, vals):
  if kind == 'list':
    return list(vals)
  if kind == 'tuple':
    return tuple(vals)
  if kind == 'array2d':     # one row = a vector (v, v + W2): rows of n-d arrays must be kept whole and stacked along axis 0
    return np.array([[v, v + W2] for v in vals], dtype=np.int64).reshape(len(vals), 2)
  return np.array(vals, dtype=np.int64)


W2 = 500000


def _rows(kind, col, what, pad=PAD):
  """-> the int row values of a column; for 2-d columns checks every row is still the whole vector (v, v + W2)."""
  if kind != 'array2d':
    return [int(x) for x in col]
  check(col.ndim == 2 and col.shape[1] == 2, 'row-shape-changed', f'{what}: column of 2-wide rows now has shape {col.shape}')
  out = []
  for r in col:
    a, b = int(r[0]), int(r[1])
    check(b == a + W2 or (a == pad and b == pad), 'row-shape-changed', f'{what}: row {r.tolist()} is not an input row')
    out.append(a)
  return out


def _kind_ok(kind, col):
  if kind == 'list':
    return type(col) is list  # pylint: disable=unidiomatic-typecheck
  if kind == 'tuple':
    return type(col) is tuple  # pylint: disable=unidiomatic-typecheck
  return isinstance(col, np.ndarray) and col.ndim == (2 if kind == 'array2d' else 1)


def build_stream(sizes, ncols, kind):
  row = 0
  out = []
  for s in sizes:
    out.append(tuple(_mk(kind, [(row + i) * 8 + j for i in range(s)]) for j in range(ncols)))
    row += s
  return out, row


def check_rebatched(outputs, total, target, ncols, kind, pad, what='rebatched_args', rows=None):
  """Validity predicate over the emitted batches (the property statement, clause by clause).

  rows: the expected row ids in order (default: 0..total-1, the input rows)
  """
  rows = list(range(total)) if rows is None else list(rows)
  total = len(rows)
  if total == 0:
    check(len(outputs) == 0, 'nonempty-output-for-empty-input', f'{what}: {outputs!r}')
    return
  nb = -(-total // target)
  check(len(outputs) == nb, 'wrong-batch-count',
        lambda: f'{what}: expected {nb} batches for {total} rows target {target}, got {len(outputs)}: '
                f'{[len(b[0]) if len(b) else None for b in outputs]}')
  seen = 0
  for bi, b in enumerate(outputs):
    check(isinstance(b, tuple) and len(b) == ncols, 'wrong-column-count', f'{what}: batch {bi} = {b!r}')
    lens = [len(c) for c in b]
    check(len(set(lens)) == 1, 'ragged-batch', f'{what}: batch {bi} column lengths {lens}')
    last = bi == nb - 1
    want = target if (not last or pad is not None) else total - target * (nb - 1)
    check(lens[0] == want, 'wrong-batch-size',
          f'{what}: batch {bi} has {lens[0]} rows, want {want} (target {target}, total {total}, pad {pad})')
    real = min(target, total - seen)
    for j, c in enumerate(b):
      check(_kind_ok(kind, c), 'container-kind-changed',
            f'{what}: batch {bi} col {j} is {type(c).__name__}{getattr(c, "shape", "")}, input {kind}')
      vals = _rows(kind, c, f'{what}: batch {bi} col {j}', PAD if pad is None else pad)
      want_vals = [rows[seen + i] * 8 + j for i in range(real)] + [pad] * (lens[0] - real)
      check(vals == want_vals, 'rows-not-conserved',
            f'{what}: batch {bi} col {j}: got {vals}, want {want_vals}')
    seen += real
  check(seen == total, 'rows-lost', f'{what}: {seen} of {total} rows emitted')


def classify(sizes, target):
  total = sum(sizes)
  cl = []
  if any(s > target for s in sizes):
    cl.append('has-larger')
  if any(0 < s < target for s in sizes):
    cl.append('has-smaller')
  if any(s == 0 for s in sizes):
    cl.append('has-empty-batch')
  if not sizes:
    cl.append('empty-stream')
  if total % target:
    cl.append('remainder')
  if any(s == target for s in sizes):
    cl.append('exact-fit')
  nt = 'has-larger' in cl and 'has-smaller' in cl and 'remainder' in cl
  return cl, nt


# ------------------------------------------------------------------ direct rebatched_args
def run_direct(case):
  from ml_metrics._src.utils import iter_utils  # pylint: disable=g-import-not-at-top
  sizes, target, ncols, kind = case['sizes'], case['target'], case['ncols'], case['kind']
  pad = case.get('pad_value', PAD) if case['pad'] else None    # the pad value may be falsy (0)
  stream, total = build_stream(sizes, ncols, kind)
  kw = {}
  if case['num_columns']:
    kw['num_columns'] = ncols
  if pad is not None:
    kw['pad'] = pad
  before = [[np.array(c).tolist() for c in b] for b in stream]
  try:
    outputs = list(iter_utils.rebatched_args(iter(stream), batch_size=target, **kw))
  except Exception as e:  # pylint: disable=broad-exception-caught
    raise crash(e, f'rebatched_args(sizes={sizes}, batch_size={target}, {kw})') from e
  check_rebatched(outputs, total, target, ncols, kind, pad)
  # the input batches belong to the caller: a second pass over the same batch objects re-batches the same rows
  after = [[np.array(c).tolist() for c in b] for b in stream]
  check(before == after, 'input-batch-modified',
        lambda: f'rebatched_args(sizes={sizes}, batch_size={target}, {kw}) changed its input batches: {before} -> {after}')
  if case.get('again'):
    try:
      outputs = list(iter_utils.rebatched_args(iter(stream), batch_size=target, **kw))
    except Exception as e:  # pylint: disable=broad-exception-caught
      raise crash(e, f'second pass of rebatched_args(sizes={sizes}, batch_size={target}, {kw})') from e
    check_rebatched(outputs, total, target, ncols, kind, pad, what='second pass over the same batches')
  cl, nt = classify(sizes, target)
  cl.append(f'kind-{kind}')
  if pad is not None:
    cl.append('padded')
  return {'nontrivial': nt, 'classes': cl}


def enum_direct(tier):
  maxlen = 3 if tier == 'quick' else 4
  for n in range(maxlen + 1):
    for sizes in itertools.product(range(6), repeat=n):
      for target in range(1, 7):
        for ncols in (1, 2, 3):
          for kind in ('list', 'tuple', 'array', 'array2d'):
            for pad in (False, True):
              for numc in (False, True):
                yield {'sizes': list(sizes), 'target': target, 'ncols': ncols, 'kind': kind,
                       'pad': pad, 'num_columns': numc}


def strat_direct(tier):
  maxlen, maxsize = (12, 40) if tier == 'quick' else (24, 80)

  @st.composite
  def s(draw):
    target = draw(st.integers(1, maxsize + 10))
    # sizes biased around the target so larger/smaller/exact all occur
    size = st.one_of(st.integers(0, maxsize), st.integers(max(0, target - 2), target + 2),
                     st.sampled_from([0, 1, target, 2 * target, 2 * target + 1]))
    sizes = draw(st.lists(size, min_size=0, max_size=maxlen))
    if draw(st.integers(0, 7)) == 0:
      # a long run of tiny (also empty) input batches that only fills the target after more than 2**6 of them
      n = draw(st.sampled_from([63, 64, 65, 100, 150]))
      sizes = [draw(st.sampled_from([0, 1, 1, 2])) for _ in range(8)] * (n // 8 + 1)
      sizes = sizes[:n]
      target = draw(st.sampled_from([max(1, sum(sizes) - 1), max(1, sum(sizes) // 2 + 1), 100, 16]))
    return {'sizes': sizes, 'target': target, 'ncols': draw(st.integers(1, 4)),
            'kind': draw(st.sampled_from(['list', 'tuple', 'array', 'array2d'])), 'pad': draw(st.booleans()),
            'num_columns': draw(st.booleans()), 'again': draw(st.integers(0, 3)) == 0, 'pad_value': draw(st.sampled_from([-1, -1, 0]))}
  return s()


def decode_direct(fdp):
  """bytes -> case for the coverage-guided engine (same domain as strat_direct, thorough bounds)."""
  target = fdp.ConsumeIntInRange(1, 90)
  ncols = fdp.ConsumeIntInRange(1, 4)
  kind = ('list', 'tuple', 'array', 'array2d')[fdp.ConsumeIntInRange(0, 3)]
  flags = fdp.ConsumeIntInRange(0, 3)
  sizes = []
  while fdp.remaining_bytes() and len(sizes) < 24:
    b = fdp.ConsumeIntInRange(0, 255)
    # low values are absolute sizes, high values are sizes relative to the target / its multiples
    sizes.append(b if b < 81 else (max(0, target + (b % 5) - 2) if b < 200 else (b % 3) * target + (b % 2)))
  return {'sizes': sizes, 'target': target, 'ncols': ncols, 'kind': kind, 'pad': bool(flags & 1), 'num_columns': bool(flags & 2)}


# ------------------------------------------------------------------ through the pipeline
def _keep(fnkind, rowids):
  """Row-wise effect of the batched function on the row ids it is called with."""
  if fnkind == 'keep_even':
    return [r for r in rowids if r % 2 == 0]
  if fnkind == 'dup':
    return [r for r in rowids for _ in range(2)]
  return list(rowids)


def _colfn(kind, fnkind='same'):
  def add_one_million(*cols):
    out = []
    for j, c in enumerate(cols):
      vals = [int(x[0] if kind == 'array2d' else x) for x in c]
      # the function works row by row (drops odd rows / emits every row twice), so its concatenated result does not
      # depend on how its input was batched
      vals = [r * 8 + j for r in _keep(fnkind, [v // 8 for v in vals])]
      out.append(_mk(kind, [v + 1000000 for v in vals]))
    out = tuple(out)
    return out if len(out) > 1 else out[0]
  return add_one_million


def run_pipeline(case):
  from ml_metrics._src.chainables import transform  # pylint: disable=g-import-not-at-top
  sizes, ncols, kind, op = case['sizes'], case['ncols'], case['kind'], case['op']
  bs, fbs = case['batch_size'], case['fn_batch_size']
  stream, total = build_stream(sizes, ncols, kind)
  keys = tuple(f'c{j}' for j in range(ncols))
  records = [dict(zip(keys, b)) for b in stream]
  calls = []
  fnkind = case.get('fnkind', 'same')
  base = _colfn(kind, fnkind)

  def fn(*cols):
    calls.append([len(c) for c in cols])
    return base(*cols)

  try:
    t = transform.TreeTransform()
    if op == 'apply':
      t = t.apply(fn, input_keys=keys, output_keys=keys, batch_size=bs, fn_batch_size=fbs)
    elif op == 'select':
      t = t.select(keys, batch_size=bs)
    elif op == 'batch':
      # batch(n): single records -> lists of n records
      records = [{k: int(v[i]) for k, v in r.items()} for r in records for i in range(len(r[keys[0]]))]
      t = t.select(keys).batch(bs)
    out = list(t.make().iterate(records))
  except Exception as e:  # pylint: disable=broad-exception-caught
    raise crash(e, f'pipeline {op} batch_size={bs} fn_batch_size={fbs} sizes={sizes}') from e
  if op == 'batch':
    outputs = [tuple(list(o[k]) for k in keys) for o in out]
    for o in out:
      check(set(o) == set(keys), 'wrong-keys', f'{o!r}')
    check_rebatched(outputs, total, bs, ncols, 'list', None, what='batch(n)')
  else:
    off = 1000000 if op == 'apply' else 0
    outputs = []
    for o in out:
      check(isinstance(o, dict) and set(o) == set(keys), 'wrong-keys', f'{o!r}')
      outputs.append(tuple(_mk(kind, [int(x) - off for x in o[k]]) if kind not in ('array', 'array2d')
                           else np.asarray(o[k]) - off for k in keys))
    check_rebatched(outputs, total, bs, ncols, kind, None, what=f'{op}(batch_size={bs}, fn_batch_size={fbs}, fn={fnkind})',
                    rows=_keep(fnkind, range(total)) if op == 'apply' else None)
    if op == 'apply' and fbs and total:
      # the function must have been called on batches of exactly fn_batch_size rows (last may be short)
      nb = -(-total // fbs)
      want = [[fbs] * ncols] * (nb - 1) + [[total - fbs * (nb - 1)] * ncols]
      check(calls == want, 'fn-batch-size-not-honoured', f'fn saw {calls}, want {want}')
  cl, nt = classify(sizes if op != 'batch' else [1] * total, bs)
  cl.append(f'op-{op}')
  if fnkind != 'same':
    cl.append(f'fn-{fnkind}')
  if fbs:
    cl.append('fn_batch_size')
  if op == 'batch':
    nt = total % bs != 0 and total > bs
  return {'nontrivial': nt, 'classes': cl}


def strat_pipeline(tier):
  maxlen, maxsize = (8, 12) if tier == 'quick' else (16, 30)

  @st.composite
  def s(draw):
    op = draw(st.sampled_from(['apply', 'apply', 'select', 'batch']))
    bs = draw(st.integers(1, maxsize + 2))
    size = st.one_of(st.integers(1, maxsize), st.integers(max(1, bs - 2), bs + 2))
    sizes = draw(st.lists(size, min_size=0 if op != 'batch' else 0, max_size=maxlen))
    fbs = draw(st.one_of(st.just(0), st.integers(1, maxsize + 2))) if op == 'apply' else 0
    kind = draw(st.sampled_from(['list', 'tuple', 'array', 'array2d'])) if op != 'batch' else 'list'
    # a single *tuple* column returned by a function is, by the API's documented duality, read as
    # several outputs; tuple containers are therefore only generated with >= 2 columns under apply.
    ncols = draw(st.integers(2 if (op == 'apply' and kind == 'tuple') else 1, 3))
    case = {'op': op, 'sizes': sizes, 'ncols': ncols, 'kind': kind, 'batch_size': bs, 'fn_batch_size': fbs}
    if op == 'apply':
      if draw(st.integers(0, 3)) == 0:
        case['fn_batch_size'] = bs          # function batch == output batch
      case['fnkind'] = draw(st.sampled_from(['same', 'same', 'keep_even', 'dup']))
    return case
  return s()


SCENARIOS = [
    Scenario('exhaustive_core', run_direct, enumerate=enum_direct,
             budget={'quick': 1, 'thorough': 1}, shards={'quick': 8, 'thorough': 16}),
    Scenario('hyp_direct', run_direct, strategy=strat_direct,
             budget={'quick': 4000, 'thorough': 60000}, shards={'quick': 4, 'thorough': 16},
             decode=decode_direct, fuzz_runs={'quick': 8000, 'thorough': 600000},
             instrument=('ml_metrics._src.utils.iter_utils',)),
    Scenario('pipeline', run_pipeline, strategy=strat_pipeline,
             budget={'quick': 2000, 'thorough': 30000}, shards={'quick': 4, 'thorough': 16}),
]
