"""C07 — metric values equal their mathematical definitions."""
from __future__ import annotations

import math

from hypothesis import strategies as st
import numpy as np

from vlib import metrics_reg as reg
from vlib.core import Scenario, Violation, check, crash
from vlib.oracles import metrics_ref as ref

PROPERTY = 'C07'
LEVEL = 'exploration'
RULE = ('case = (metric, configuration, one batch of rows) drawn per registry entry (23 accumulators), plus alias/range '
        'sweeps over all confusion-matrix and retrieval metrics, the one-shot function API, and the signal functions; '
        'oracle = vlib/oracles/metrics_ref.py (plain-Python textbook definitions, math.fsum) with rtol=atol=1e-9; '
        'non-trivial = both classes present / a zero denominator / k straddling a prediction length / a NaN entry / >= 2 '
        'distinct values; distinct = distinct canonical case JSON'
        '; also: data shifted by 2**24 for the mean / variance family (tolerance 1e-5 on shifted data), batches of 127..512 rows (a pattern repeated) in every scenario, text/statistics accumulators fed batch by batch')
ASSUMPTIONS = [
    'zero denominator -> 0 (safe_divide) and NaN skipping (nanmean/nanvar) are the documented conventions',
    'retrieval rows have >= 1 true label, >= 1 prediction, no duplicate ids within a row; k_list sorted unique, entries >= 1',
    'floating point values on an exactly representable grid; comparison tolerance rtol=atol=1e-9 (RRegression 1e-7, '
    'zero-variance columns not compared)',
    'cg_score (randomised) and the text signals (module not importable in this snapshot) are out of scope',
    'CalibrationHistogram has no prose definition: the reference follows the semantics its upstream test pins',
]

K3 = ('threat_score', 'mean_average_precision', 'ndcg_score')


def _self_test():
  """Oracle gate: the reference must reproduce literal expectations pinned by the repository's own tests."""
  yp = [1, 0, 1, 0, 1, 0, 0]
  yt = [1, 1, 0, 0, 1, 0, 1]
  c = ref.cm_counts([{x} for x in yt], [{x} for x in yp], [1, 0])
  assert c[1] == (2, 2, 1, 2) and c[0] == (2, 2, 2, 1), c
  yp = ['y', 'n', 'y', 'n', 'y', 'n', 'n', 'u']
  yt = ['y', 'y', 'n', 'n', 'y', 'n', 'y', 'u']
  c = ref.cm_counts([{x} for x in yt], [{x} for x in yp], ['y', 'n', 'u'])
  assert [c[k] for k in 'ynu'] == [(2, 3, 1, 2), (2, 3, 2, 1), (1, 7, 0, 0)], c
  # retrieval literals (retrieval_test.py multiclass_multioutput, k_list [1, 2])
  yp = [['y'], ['n', 'y'], ['y'], ['n'], ['y'], ['n'], ['n'], ['u']]
  yt = [['y'], ['y'], ['n'], ['n'], ['y', 'n'], ['n'], ['y'], ['u']]
  def mean_at(m, k):
    return math.fsum(ref.retrieval_row(m, t, p, k) for t, p in zip(yt, yp)) / 8
  l3 = math.log2(3)
  want = {
      'threat_score': [4.5 / 8, (2.5 + 1 / 3) / 8], 'dcg_score': [5 / 8, (1 / l3 + 5) / 8],
      'ndcg_score': [5 / 8, (4 + 1 / l3 + 1 / (1 + 1 / l3)) / 8], 'mean_reciprocal_rank': [5 / 8, 5.5 / 8],
      'precision': [5 / 8, 5.5 / 8], 'false_discovery_rate': [3 / 8, 2.5 / 8],
      'mean_average_precision': [5 / 8, 5 / 8], 'recall': [4.5 / 8, 5.5 / 8],
      'intersection_over_union': [4.5 / 8, 5 / 8], 'miss_rate': [3.5 / 8, 2.5 / 8],
      'f1_score': [(4 + 2 / 3) / 8, (4 + 4 / 3) / 8], 'accuracy': [5 / 8, 6 / 8],
      'fowlkes_mallows_index': [float(np.sqrt([1, 0, 0, 1, 0.5, 1, 0, 1]).mean()),
                                float(np.sqrt([1, 0.5, 0, 1, 0.5, 1, 0, 1]).mean())],
  }
  for m, (a, b) in want.items():
    assert reg.close([mean_at(m, 1), mean_at(m, 2)], [a, b]), (m, mean_at(m, 1), mean_at(m, 2), a, b)
  rows = [(['a', 'c', 'e', 'h'], ['a', 'b', 'c', 'd', 'e'], [0.1, 0.2, 0.3, 0.4, 0.5])] * 2
  r = ref.thresholded_retrieval(rows, [0.2, 0.3, 0.5])
  assert reg.close(r['recall'], [1 / 2, 1 / 4, 0.0]) and reg.close(r['precision'], [2 / 3, 1 / 2, 0.0]), r
  s = ref.column_stats([1.0, 2.0, 3.0, float('nan')])
  assert s['count'] == 3 and reg.close(s['mean'], 2.0) and reg.close(s['var'], 2 / 3), s
  assert ref.histogram([0, 0.5, 1.0, 1.0, 2.0], [0, 0.5, 1.0]) == [1, 3]
  assert ref.word_ngrams(['a b a b', 'b'], 2, 1, False, True) == [('b', 1.5), ('a', 1.0)]
  assert ref.pattern_frequency(['aaa', 'b'], ['aa', 'b'], True) == [('aa', 1.0), ('b', 0.5)]


def _guard(fn, what):
  try:
    return fn()
  except Violation:
    raise
  except Exception as e:  # pylint: disable=broad-exception-caught
    raise crash(e, what) from e


def _cmp(entry, cfg, got, want, what, kind='value-differs-from-definition'):
  """Compares normalised results, metric by metric where the result is a dict (so the kind names the metric)."""
  if isinstance(got, dict) and isinstance(want, dict):
    check(set(got) == set(want), 'result-keys-differ', f'{what}: keys {sorted(got)} vs {sorted(want)}')
    keys = [k for k in got if k not in K3] + [k for k in got if k in K3]
    for k in keys:
      check(entry.equal(cfg, got[k], want[k]), f'{kind}:{entry.name}:{k}',
            f'{what}: {k} = {got[k]!r}, definition gives {want[k]!r}')
  else:
    check(entry.equal(cfg, got, want), f'{kind}:{entry.name}', f'{what}: got {got!r}, definition gives {want!r}')


# accumulators whose batch-by-batch feeding needs no extra configuration (the classification family needs a fixed vocabulary
# and top-k retrieval has the recorded truncation finding: their batching behaviour is C01's subject)
_BATCHED = {'Mean', 'MeanAndVariance', 'Var', 'MinMaxAndCount', 'Histogram', 'Counter', 'R2Tjur', 'R2TjurRelative', 'RRegression',
            'SymmetricPredictionDifference', 'MeanState', 'TupleMeanState', 'TopKWordNGrams', 'PatternFrequency',
            'CalibrationHistogram'}


def run_accumulator(case):
  e = reg.BY_NAME[case['entry']]
  cfg, rows = case['cfg'], case['rows']
  what = f'{e.name}({cfg}) on rows {rows}'
  args = e.args(cfg, rows)
  results = []
  if 'metric' in e.apis:
    m = _guard(lambda: e.make(cfg), f'constructing {what}')
    ret = _guard(lambda: m.add(*args), f'{what}.add')
    if e.compare == 'sampler':
      msg = e.sampler_ok(cfg, m, rows)
      check(msg is None, f'sampler-invariant:{e.name}', f'{what}: {msg}')
    else:
      results.append(('add/result', e.norm(cfg, _guard(m.result, f'{what}.result'))))
    if e.per_row and ret is not None:
      got_rows = e.rows_norm(cfg, ret) if hasattr(e, 'rows_norm') else None
      if got_rows is not None:
        want_rows = e.ref_rows(cfg, rows)
        _cmp(e, cfg, got_rows, want_rows, f'{what}: per-example values returned by add', 'per-row-value-differs')
  if 'agg' in e.apis:
    fn = _guard(lambda: e.agg(cfg), f'{what}.as_agg_fn')
    state = _guard(lambda: fn.update_state(fn.create_state(), *args), f'{what}: update_state')
    if e.compare == 'sampler':
      msg = e.sampler_ok(cfg, state, rows)
      check(msg is None, f'sampler-invariant:{e.name}', f'{what} (agg fn): {msg}')
    else:
      results.append(('update_state/get_result', e.norm(cfg, _guard(lambda: fn.get_result(state), f'{what}: get_result'))))
      results.append(('agg_fn(*inputs)', e.norm(cfg, _guard(lambda: fn(*args), f'{what}: direct call'))))
  cuts = case.get('cuts')
  if cuts and e.name in _BATCHED and len(rows) >= 2:
    # the accumulator fed batch by batch equals the definition on all rows (the one-shot value)
    bounds = [0] + sorted(min(c, len(rows)) for c in cuts) + [len(rows)]
    parts = [rows[a:b] for a, b in zip(bounds, bounds[1:]) if b > a]
    if 'metric' in e.apis:
      m2 = _guard(lambda: e.make(cfg), f'constructing {what}')
      for part in parts:
        _guard(lambda: m2.add(*e.args(cfg, part)), f'{what}: add of batch {part}')
      results.append((f'add in batches {parts}', e.norm(cfg, _guard(m2.result, f'{what}.result after batches {parts}'))))
    if 'agg' in e.apis:
      fn2 = _guard(lambda: e.agg(cfg), f'{what}.as_agg_fn')
      st2 = fn2.create_state()
      for part in parts:
        st2 = _guard(lambda: fn2.update_state(st2, *e.args(cfg, part)), f'{what}: update_state with batch {part}')
      results.append((f'update_state in batches {parts}', e.norm(cfg, _guard(lambda: fn2.get_result(st2), f'{what}: get_result after batches {parts}'))))
  if e.compare != 'sampler':
    want = e.ref(cfg, rows)
    for api, got in results:
      _cmp(e, cfg, got, want, f'{what} via {api}')
  nt = len({repr(r) for r in rows}) >= 2 and (e.nontrivial_row(cfg, rows) or len(rows) >= 3)
  return {'nontrivial': nt, 'classes': [e.name]}


def strat_accumulator(tier):
  maxrows = 10 if tier == 'quick' else 24

  @st.composite
  def s(draw):
    e = draw(st.sampled_from(reg.ENTRIES))
    cfg = draw(e.cfg())
    rows = draw(st.lists(e.row(cfg), min_size=1, max_size=maxrows))
    if draw(st.integers(0, 5)) == 0:
      # a long batch (a short pattern repeated) crossing 2**7 / 2**8 rows
      n = draw(st.sampled_from([127, 128, 129, 255, 256, 257, 300, 512]))
      rows = (rows[:5] * (n // len(rows[:5]) + 1))[:n]
    case = {'entry': e.name, 'cfg': cfg, 'rows': rows}
    if e.name in _BATCHED and len(rows) >= 2 and draw(st.booleans()):
      case['cuts'] = draw(st.lists(st.integers(1, len(rows) - 1), min_size=1, max_size=3))
    return case
  return s()


# --------------------------------------------------------------------------------- aliases, ranges, function API
def run_classification_api(case):
  """All confusion-matrix metrics at once: definition, aliases exactly equal, ranges, one-shot functions."""
  from ml_metrics._src.metrics import classification as mcls  # pylint: disable=g-import-not-at-top
  cfg, rows = case['cfg'], case['rows']
  e = reg.BY_NAME['TopKConfusionMatrixAggFn' if cfg.get('k_list') else (
      'SamplewiseClassification' if cfg['average'] == 'samples' else 'ConfusionMatrixAggFn')]
  metrics = list(reg.CM_METRICS)
  cfg = dict(cfg, metrics=metrics)
  yt, yp = e.args(cfg, rows)
  what = f'classification metrics {cfg} on rows {rows}'
  kw = dict(input_type=cfg['input_type'], average=cfg['average'], pos_label=cfg.get('pos_label', 1))
  if cfg.get('vocab'):
    kw['vocab'] = {k: i for i, k in enumerate(cfg['vocab'])}
  if cfg.get('k_list'):
    kw['k_list'] = list(cfg['k_list'])
  want = e.ref(cfg, rows)
  if 'metric' in e.apis:
    m = e.make(cfg)
    _guard(lambda: m.add(yt, yp), what)
    acc = e.norm(cfg, m.result())
  else:
    acc = e.norm(cfg, _guard(lambda: e.agg(cfg)(yt, yp), what))
  _cmp(e, cfg, acc, want, what)
  # aliases agree exactly
  for group in ref.ALIASES:
    vals = [acc[g] for g in group]
    check(all(reg.close(v, vals[0], 0, 0) for v in vals), f'aliases-disagree:{group[0]}', f'{what}: {dict(zip(group, vals))}')
  # ranges
  for mname, (lo, hi) in ref.RANGES.items():
    if mname in acc:
      for v in (acc[mname] if isinstance(acc[mname], list) else [acc[mname]]):
        check(lo - 1e-12 <= v <= hi + 1e-12, f'out-of-range:{mname}', f'{what}: {mname} = {v}')
  # one-shot functions == accumulator (binary input requires a valid pos_label: contract)
  multi = _guard(lambda: mcls.classification_metrics(metrics, y_true=yt, y_pred=yp, **kw), f'{what}: classification_metrics()')
  multi = {str(k.value if hasattr(k, 'value') else k): reg.tolist(v) for k, v in multi.items()}
  _cmp(e, cfg, multi, acc, f'{what}: classification_metrics() vs accumulator', 'function-api-differs')
  for mname in case['fns']:
    fn = getattr(mcls, mname)
    got = reg.tolist(_guard(lambda: fn(yt, yp, **kw), f'{what}: metrics.classification.{mname}()'))
    check(e.equal(cfg, got, acc[mname]), f'function-api-differs:{mname}',
          f'{what}: {mname}() = {got!r}, accumulator gives {acc[mname]!r}')
  cl = [f'cm-{cfg["input_type"]}-{cfg["average"]}']
  nt = e.nontrivial_row(cfg, rows) if hasattr(e, 'nontrivial_row') else True
  zero_den = any(v == 0 for v in (want['precision'] if isinstance(want['precision'], list) else [want['precision']]))
  if zero_den:
    cl.append('zero-denominator-or-zero')
  return {'nontrivial': bool(nt) and len(rows) >= 2, 'classes': cl}


def strat_classification_api(tier):
  maxrows = 10 if tier == 'quick' else 24

  @st.composite
  def s(draw):
    kind = draw(st.sampled_from(['cm', 'cm', 'topk', 'samples']))
    cfg = draw(reg._cm_cfg(False, topk=kind == 'topk', samplewise=kind == 'samples'))  # pylint: disable=protected-access
    rows = draw(st.lists(reg._cm_rows(cfg), min_size=1, max_size=maxrows))  # pylint: disable=protected-access
    if draw(st.integers(0, 4)) == 0:
      n = draw(st.sampled_from([127, 128, 129, 255, 256, 257, 300, 512]))       # a long batch crossing 2**7 / 2**8 rows
      rows = (rows[:5] * (n // len(rows[:5]) + 1))[:n]
    if cfg['input_type'] == 'binary':
      # verify_input() demands that pos_label occurs in the data (documented ValueError otherwise)
      rows = rows + [[cfg['pos_label'], cfg['labels'][1]]]
    fns = draw(st.lists(st.sampled_from([m for m in reg.CM_METRICS if m != 'nvp' or True]), min_size=1, max_size=3, unique=True))
    return {'cfg': cfg, 'rows': rows, 'fns': fns}
  return s()


def run_retrieval_api(case):
  from ml_metrics._src.aggregates import retrieval as aret  # pylint: disable=g-import-not-at-top
  from ml_metrics._src.metrics import retrieval as mret  # pylint: disable=g-import-not-at-top
  e = reg.BY_NAME['TopKRetrieval']
  rows = case['rows']
  cfg = {'k_list': case['k_list'], 'metrics': list(reg.RETRIEVAL_METRICS)}
  yt, yp = e.args(cfg, rows)
  what = f'TopKRetrieval(k_list={cfg["k_list"]}) on rows {rows}'
  m = e.make(cfg)
  _guard(lambda: m.add(yt, yp), what)
  acc = e.norm(cfg, m.result())
  want = e.ref(cfg, rows)
  _cmp(e, cfg, acc, want, what)
  for group in ref.RETRIEVAL_ALIASES:
    vals = [acc[g] for g in group]
    check(all(reg.close(v, vals[0], 0, 0) for v in vals), f'aliases-disagree:{group[0]}', f'{what}: {dict(zip(group, vals))}')
  for mname, (lo, hi) in ref.RETRIEVAL_RANGES.items():
    for v in acc[mname]:
      check(lo - 1e-12 <= v <= hi + 1e-12, f'out-of-range:{mname}', f'{what}: {mname} = {v}')
  multi = _guard(lambda: mret.topk_retrieval_metrics([aret.RetrievalMetric(x) for x in reg.RETRIEVAL_METRICS], y_true=yt,
                                                     y_pred=yp, k_list=cfg['k_list']), f'{what}: topk_retrieval_metrics()')
  multi = {str(k.value if hasattr(k, 'value') else k): reg.tolist(v) for k, v in multi.items()}
  _cmp(e, cfg, multi, acc, f'{what}: topk_retrieval_metrics() vs accumulator', 'function-api-differs')
  for mname in case['fns']:
    got = reg.tolist(_guard(lambda: getattr(mret, mname)(yt, yp, k_list=cfg['k_list']), f'{what}: metrics.retrieval.{mname}()'))
    check(e.equal(cfg, got, acc[mname]), f'function-api-differs:{mname}', f'{what}: {mname}() = {got!r}, accumulator {acc[mname]!r}')
  maxlen = max(len(r[1]) for r in rows)
  straddle = cfg['k_list'] is not None and any(any(len(r[1]) < k for r in rows) and any(len(r[1]) >= k for r in rows)
                                               for k in cfg['k_list'])
  return {'nontrivial': len(rows) >= 2 and (straddle or len({len(r[1]) for r in rows}) >= 2),
          'classes': ['retrieval-k-straddles' if straddle else 'retrieval', f'maxlen-{maxlen}']}


def strat_retrieval_api(tier):
  maxrows = 8 if tier == 'quick' else 20

  @st.composite
  def s(draw):
    rows = draw(st.lists(reg._id_rows(False), min_size=1, max_size=maxrows))  # pylint: disable=protected-access
    if draw(st.integers(0, 4)) == 0:
      n = draw(st.sampled_from([127, 128, 129, 255, 256, 257, 300, 512]))       # a long batch crossing 2**7 / 2**8 rows
      rows = (rows[:5] * (n // len(rows[:5]) + 1))[:n]
    maxlen = max(len(r[1]) for r in rows)
    # mostly k <= longest prediction list (outside the region of known finding F-C07-topk-truncation)
    kmax = draw(st.sampled_from([maxlen, maxlen, maxlen, 7]))
    kl = draw(st.one_of(st.none(), *[st.lists(st.integers(1, kmax), min_size=1, max_size=4, unique=True).map(sorted)] * 5))
    fns = draw(st.lists(st.sampled_from(reg.RETRIEVAL_METRICS), min_size=1, max_size=3, unique=True))
    return {'k_list': kl, 'rows': rows, 'fns': fns}
  return s()


def run_misc_api(case):
  """rolling_stats one-shot functions, invalid pos_label contract, signal functions."""
  kind = case['kind']
  if kind == 'rolling':
    from ml_metrics._src.metrics import rolling_stats as mrs  # pylint: disable=g-import-not-at-top
    vals = [reg.f(v) for v in case['values']]
    s = ref.column_stats(vals)
    arr = np.array(vals, dtype=float)
    what = f'metrics.rolling_stats on {case["values"]}'
    for name, want in (('mean', s['mean']), ('var', s['var']), ('count', s['count']), ('total', s['total']),
                       ('stddev', math.sqrt(s['var']) if s['var'] == s['var'] else float('nan'))):
      got = reg.tolist(_guard(lambda: getattr(mrs, name)(arr), f'{what}.{name}'))
      check(reg.close(got, want), f'value-differs-from-definition:rolling_stats.{name}', f'{what}: {name} = {got!r}, definition {want!r}')
    return {'nontrivial': len(set(case['values'])) >= 2, 'classes': ['rolling-fn', 'has-nan' if None in case['values'] else 'no-nan']}
  if kind == 'pos_label':
    from ml_metrics._src.metrics import classification as mcls  # pylint: disable=g-import-not-at-top
    yt, yp = case['y_true'], case['y_pred']
    bad = case['pos_label']
    try:
      r = mcls.precision(yt, yp, pos_label=bad)
    except ValueError:
      return {'nontrivial': True, 'classes': ['invalid-pos_label-raises']}
    except Exception as e:  # pylint: disable=broad-exception-caught
      raise crash(e, f'precision({yt}, {yp}, pos_label={bad!r})') from e
    raise Violation('invalid-pos_label-accepted', f'precision({yt}, {yp}, pos_label={bad!r}) returned {r!r} instead of raising ValueError')
  if kind == 'flip':
    from ml_metrics._src.signals import flip_masks  # pylint: disable=g-import-not-at-top
    b, m, th = np.array(case['base'], dtype=float), np.array(case['model'], dtype=float), case['threshold']
    what = f'flip masks base={case["base"]} model={case["model"]} threshold={th}'
    want_bin = [int((x > th) != (y > th)) for x, y in zip(case['base'], case['model'])]
    want_n2p = [int(x <= th < y) for x, y in zip(case['base'], case['model'])]
    want_p2n = [int(x > th >= y) for x, y in zip(case['base'], case['model'])]
    for fn, want in ((flip_masks.binary_flip_mask, want_bin), (flip_masks.neg_to_pos_flip_mask, want_n2p),
                     (flip_masks.pos_to_neg_flip_mask, want_p2n)):
      got = reg.tolist(_guard(lambda: fn(b, m, th), f'{what}: {fn.__name__}'))
      check(got == want, f'value-differs-from-definition:{fn.__name__}', f'{what}: {fn.__name__} = {got}, definition {want}')
    return {'nontrivial': len(set(want_bin)) == 2, 'classes': ['flip-masks']}
  if kind == 'xent':
    from ml_metrics._src.signals import cross_entropy  # pylint: disable=g-import-not-at-top
    yt, yp = np.array(case['y_true']), np.array(case['y_pred'], dtype=float)
    what = f'cross entropy y_true={case["y_true"]} y_pred={case["y_pred"]}'
    want = -math.fsum(t * math.log(p) + (1 - t) * math.log(1 - p) for t, p in zip(case['y_true'], case['y_pred'])) / len(yt)
    got = float(_guard(lambda: cross_entropy.binary_cross_entropy(yt, yp), what))
    check(reg.close(got, want), 'value-differs-from-definition:binary_cross_entropy', f'{what}: {got} vs {want}')
    tot = math.fsum(case['y_pred'])
    wantc = -math.fsum(t * math.log(p / tot) for t, p in zip(case['y_true'], case['y_pred']))
    gotc = float(_guard(lambda: cross_entropy.categorical_cross_entropy(yt, yp), what))
    check(reg.close(gotc, wantc), 'value-differs-from-definition:categorical_cross_entropy', f'{what}: {gotc} vs {wantc}')
    return {'nontrivial': len(set(case['y_true'])) == 2, 'classes': ['cross-entropy']}
  if kind == 'topk_acc':
    from ml_metrics._src.signals import topk_accuracy  # pylint: disable=g-import-not-at-top
    yp, label, k, w = case['y_pred'], case['label'], case['k'], case['weights']
    what = f'topk_accurate(y_pred={yp}, label={label}, weights={w}, k={k})'
    scores = [p * x for p, x in zip(yp, w)]
    # distinct scores (generator guarantees it): label is in the top-k iff fewer than k scores are strictly larger
    want = sum(1 for s_ in scores if s_ > scores[label]) < k
    got = bool(_guard(lambda: topk_accuracy.topk_accurate(np.array(yp), label, np.array(w), k), what))
    check(got == want, 'value-differs-from-definition:topk_accurate', f'{what} = {got}, definition {want}')
    return {'nontrivial': 1 < k < len(yp), 'classes': ['topk-accurate']}
  raise ValueError(kind)


def strat_misc_api(tier):
  @st.composite
  def s(draw):
    kind = draw(st.sampled_from(['rolling', 'rolling', 'pos_label', 'flip', 'xent', 'topk_acc']))
    if kind == 'rolling':
      return {'kind': kind, 'values': draw(st.lists(st.one_of(st.sampled_from(reg.GRID), st.none()), min_size=1, max_size=12))}
    if kind == 'pos_label':
      labs = draw(st.sampled_from([[0, 1], ['a', 'b']]))
      n = draw(st.integers(1, 6))
      return {'kind': kind, 'y_true': [draw(st.sampled_from(labs)) for _ in range(n)],
              'y_pred': [draw(st.sampled_from(labs)) for _ in range(n)], 'pos_label': draw(st.sampled_from([7, 'zz', -1]))}
    if kind == 'flip':
      n = draw(st.integers(1, 8))
      v = st.sampled_from(reg.PROBS)
      return {'kind': kind, 'base': [draw(v) for _ in range(n)], 'model': [draw(v) for _ in range(n)], 'threshold': draw(v)}
    if kind == 'xent':
      n = draw(st.integers(1, 8))
      return {'kind': kind, 'y_true': [draw(st.integers(0, 1)) for _ in range(n)],
              'y_pred': [draw(st.sampled_from(reg.PROBS[1:-1])) for _ in range(n)]}
    n = draw(st.integers(2, 6))
    perm = draw(st.permutations(list(range(1, n + 1))))
    return {'kind': kind, 'y_pred': [p / 8 for p in perm], 'label': draw(st.integers(0, n - 1)),
            'k': draw(st.integers(1, n)), 'weights': [1.0] * n}
  return s()


def known_topk_truncation(scenario, case, v):
  """TopKRetrieval evaluates k-dependent normalisers at k truncated to the batch's longest prediction list."""
  parts = v.kind.split(':')
  if parts[-1] not in K3 or 'TopKRetrieval' not in v.kind and scenario != 'retrieval_api':
    return False
  rows = case['rows']
  kl = case.get('k_list', case.get('cfg', {}).get('k_list') if isinstance(case.get('cfg'), dict) else None)
  maxlen = max(len(r[1]) for r in rows)
  return kl is None or max(kl) > maxlen


KNOWN = {'F-C07-topk-truncation': known_topk_truncation}

SCENARIOS = [
    Scenario('accumulators', run_accumulator, strategy=strat_accumulator, setup=_self_test,
             budget={'quick': 6000, 'thorough': 90000}, shards={'quick': 6, 'thorough': 16}),
    Scenario('classification_api', run_classification_api, strategy=strat_classification_api, setup=_self_test,
             budget={'quick': 1500, 'thorough': 24000}, shards={'quick': 4, 'thorough': 16}),
    Scenario('retrieval_api', run_retrieval_api, strategy=strat_retrieval_api, setup=_self_test,
             budget={'quick': 1200, 'thorough': 20000}, shards={'quick': 3, 'thorough': 16}),
    Scenario('misc_api', run_misc_api, strategy=strat_misc_api,
             budget={'quick': 1500, 'thorough': 20000}, shards={'quick': 3, 'thorough': 16}),
]
