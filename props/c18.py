"""C18 — tree views obey get/set laws and never mutate the viewed data."""
from __future__ import annotations

from hypothesis import strategies as st
import numpy as np

from vlib.core import Scenario, Violation, check, crash
from vlib.oracles import tree_ref as tr

PROPERTY = 'C18'
LEVEL = 'exploration'
RULE = ('laws: a generated tree (dict with str/int keys, list, tuple, ndarray, scalar leaves, depth <= 4) and a sequence of '
        '1..6 copy-and-set operations whose paths are built by construction from the current tree (existing leaf / inner '
        'node, fresh dict key, list append, fresh multi-level suffix, ndarray element, SELF); views: leaf enumeration, '
        'multi-key reads, Literal/SELF/SKIP keys, key_paths, apply(map_fn), copy_and_update; non-trivial = tree depth >= 2 '
        'and the (first) path shares a proper prefix with another leaf; distinct = distinct canonical case JSON'
        '; also: sets through negative indices, tuple-typed dict keys given as plain tuples in multi-key reads, apply() over selected key paths, shared sub-containers, plain "SELF"/"SKIP" and tuple-typed dict keys, array views, repeated paths in pair updates (list and generator), wide trees of 33..70 rows, sets made through the view a previous set returned, unsettable paths (append position followed by an impossible component), the view iterated before a set and the returned view iterated after it, pairs that put back the very object the viewed data held originally')
ASSUMPTIONS = [
    'reference = vlib/oracles/tree_ref.py (copy-on-write set, DFS leaf enumeration) written from the TreeMapView docstrings',
    'root is a container; dict keys may be the plain strings "SELF"/"SKIP" (the reserved keys are the Key.SELF / Key.SKIP objects); '
    'the same inner container object may appear at two paths (never inside itself); views scenario trees contain no empty containers '
    '(the code treats them as leaves, the docstring is silent)',
]

# 'SELF' / 'SKIP' as plain strings are ordinary dict keys (the reserved keys are the Key.SELF / Key.SKIP objects)
# tuple-typed dict keys (e.g. slice-style ('t', 0)) are single keys as well
KEYS = ['a', 'b', 'c', 'x1', 0, 1, 7, 'SELF', 'SKIP', ('t', 0), ('a', 'b')]


def _key(path):
  from ml_metrics._src.chainables import tree  # pylint: disable=g-import-not-at-top
  return tree.Key(tuple(tree.Index(k) if kind == 'i' else k for kind, k in path))


def _guard(fn, what):
  try:
    return fn()
  except Violation:
    raise
  except Exception as e:  # pylint: disable=broad-exception-caught
    raise crash(e, what) from e


def _depth(t):
  if isinstance(t, dict):
    return 1 + max([_depth(v) for v in t.values()] or [0])
  if isinstance(t, (list, tuple)):
    return 1 + max([_depth(v) for v in t] or [0])
  return 0


def _same(a, b):
  """Identity, or equality for values that numpy hands out as fresh scalars."""
  return a is b or (isinstance(a, np.generic) and a == b)


# ------------------------------------------------------------------------------ laws
def run_laws(case):
  from ml_metrics._src.chainables import tree  # pylint: disable=g-import-not-at-top
  cur = tr.decode(case['tree'])
  model = tr.decode(case['tree'])
  shared = False
  if case.get('share'):
    shared = tr.share(cur, *case['share'])
    tr.share(model, *case['share'])
  nontrivial = False
  classes = set()
  chain, cur_view = case.get('chain'), None     # chain: every set is made through the view the previous set returned
  for oi, op in enumerate(case['ops']):
    path = tr.npath(op['path'])
    value = tr.decode(op['value'])
    value_model = tr.decode(op['value'])
    snap = tr.snapshot(cur)
    key = _key(path) if path else tree.Key.SELF
    if op.get('neg') and path:
      alias, node = [], cur
      for kind_, k_ in path:
        alias.append((kind_, k_ - len(node)) if kind_ == 'i' and not isinstance(node, np.ndarray) else (kind_, k_))
        node = node[k_]
      key = _key(tuple(alias))
    if len(path) == 1 and op.get('raw') and path[0][0] == 'k' and not isinstance(path[0][1], tuple):
      key = path[0][1]   # a bare key instead of a Key path
    what = f'op {oi}: TreeMapView({snap!r}).copy_and_set({key!r}, {value!r})'
    view = cur_view if chain and cur_view is not None else tree.TreeMapView(cur)
    if chain and cur_view is not None:
      what = f'op {oi}: (view returned by op {oi - 1}, data {snap!r}).copy_and_set({key!r}, {value!r})'
      classes.add('set-through-derived-view')
    if op.get('bad'):
      # a path that cannot be set: whatever the outcome (an error, normally), the viewed data stays as it was
      classes.add('unsettable-path')
      try:
        view.copy_and_set(key, value)
        outcome = 'returned'
      except Exception as e:  # pylint: disable=broad-exception-caught
        outcome = f'raised {type(e).__name__}'
      check(tr.deep_equal(cur, snap), 'original-mutated', f'{what} {outcome}: original is now {cur!r}')
      if outcome == 'returned':
        break
      continue
    exists = True
    try:
      old = tr.ref_get(cur, path)
    except (KeyError, IndexError):
      exists = False
    if case.get('iterate'):
      # the view is iterated / measured before it is used for the set (a view may remember what it listed)
      _guard(lambda: (len(view), list(view.items())), f'{what}: iterating the view first')
    new_view = _guard(lambda: view.copy_and_set(key, value), what)
    new = new_view.data
    if case.get('iterate') and tr.is_container(new):
      # the returned view lists the leaves of *its* data: every listed path reads back its leaf, as many as a fresh view lists
      listed = _guard(lambda: list(new_view.items()), f'{what}; iterating the returned view')
      fresh = _guard(lambda: list(tree.TreeMapView(new).items()), f'{what}; iterating a fresh view of the result')
      check(len(listed) == len(fresh) == _guard(lambda: len(new_view), f'{what}; len of the returned view')
            and all(lk == fk and lv is fv for (lk, lv), (fk, fv) in zip(listed, fresh)),
            'derived-view-iteration-stale', f'{what}: the returned view lists {listed!r}, a fresh view of its data {new!r} lists {fresh!r}')
      classes.add('iterate-derived-view')
    # (1) the viewed data is unchanged at every depth
    check(tr.deep_equal(cur, snap), 'original-mutated', f'{what}: original is now {cur!r}')
    # (2) agrees with the reference copy-on-write set
    want = tr.ref_set(model, path, value_model)
    check(tr.deep_equal(new, want), 'set-differs-from-reference', f'{what} -> {new!r}, reference {want!r}')
    # (3) get after set returns the set value
    got = _guard(lambda: tree.TreeMapView(new)[key], f'{what}; then get')
    check(_same(got, value), 'get-after-set', f'{what}: reading back gives {got!r}')
    # (4) frame: every unrelated leaf is the same object as before
    for q, leaf in tr.leaves(cur):
      if q and not tr.related(q, path):
        g = _guard(lambda q=q: tree.TreeMapView(new)[_key(q)], f'{what}; reading {q}')
        check(g is leaf, 'frame-violated', f'{what}: leaf at {q} was {leaf!r} is now {g!r} (not the same object)')
        if len(path) >= 2 and q[0] == path[0]:
          nontrivial = nontrivial or _depth(cur) >= 2
    # (5) setting a path to its current value changes nothing
    if exists and path:
      same = _guard(lambda: tree.TreeMapView(new).copy_and_set(key, got).data, f'{what}; re-set same value')
      check(tr.deep_equal(same, new), 'set-same-value-changes', f'{what}: re-setting {key!r} to its value gives {same!r}')
    classes.add('existing-path' if exists else 'fresh-path')
    if any(k == 'i' for k, _ in path):
      classes.add('index-component')
    if not path:
      classes.add('SELF')
    cur, model, cur_view = new, want, new_view
  if shared:
    classes.add('shared-subtree')
  return {'nontrivial': nontrivial, 'classes': sorted(classes)}


def _scalar():
  return st.one_of(st.integers(-5, 5), st.sampled_from(['s', 'tt', '']), st.sampled_from([0.5, -1.25, 3.0]),
                   st.booleans(), st.none()).map(lambda v: {'v': v})


def _tree(max_depth, allow_empty, allow_none=True):
  leaf = st.one_of(_scalar() if allow_none else _scalar().filter(lambda j: j['v'] is not None),
                   st.lists(st.integers(0, 9), min_size=1, max_size=4).map(lambda v: {'a': v}),
                   st.lists(st.integers(0, 9), min_size=1, max_size=4).map(lambda v: {'av': v}))
  if allow_empty:
    leaf = st.one_of(leaf, st.sampled_from([{'d': []}, {'l': []}, {'t': []}]))

  def extend(children):
    d = st.lists(st.tuples(st.sampled_from(KEYS), children), min_size=1, max_size=3,
                 unique_by=lambda kv: kv[0]).map(lambda kvs: {'d': [list(kv) for kv in kvs]})
    l = st.lists(children, min_size=1, max_size=3).map(lambda v: {'l': v})
    t = st.lists(children, min_size=1, max_size=3).map(lambda v: {'t': v})
    return st.one_of(d, d, l, t)
  return st.recursive(leaf, extend, max_leaves=10 if max_depth >= 4 else 6)


def _root(max_depth, allow_empty, allow_none=True):
  return _tree(max_depth, allow_empty, allow_none).filter(lambda j: next(iter(j)) in 'dlt' and bool(next(iter(j.values()))))


@st.composite
def _path_for(draw, model):
  """A valid set path for the current tree, by construction."""
  cands = []
  for p, node in tr.nodes(model):
    if p:
      cands.append(('existing', p))
    if isinstance(node, dict):
      fresh = [k for k in KEYS if k not in node]
      if fresh:
        cands.append(('fresh-key', p + (('k', fresh[0]),)))
        cands.append(('fresh-key', p + (('k', fresh[-1]),)))
    elif isinstance(node, (list, tuple)):
      cands.append(('append', p + (('i', len(node)),)))
    elif isinstance(node, np.ndarray):
      cands.append(('array-elem', p + (('i', draw(st.integers(0, len(node) - 1))),)))
  cands.append(('self', ()))
  kind, p = draw(st.sampled_from(cands))
  if kind in ('fresh-key', 'append'):
    suffix = draw(st.lists(st.one_of(st.sampled_from(KEYS).map(lambda k: ('k', k)), st.just(('i', 0))), max_size=2))
    p = p + tuple(suffix)
  return kind, [list(c) for c in p]


def strat_laws(tier):
  @st.composite
  def s(draw):
    tj = draw(_root(4, True))
    model = tr.decode(tj)
    share = [draw(st.integers(0, 5)), draw(st.integers(0, 5))] if draw(st.integers(0, 3)) == 0 else None
    if share:
      tr.share(model, *share)
    ops = []
    for _ in range(draw(st.integers(1, 6))):
      if draw(st.integers(0, 5)) == 0:
        # a path that starts like a valid one (incl. an append position) and then cannot be completed
        seqs = [p for p, node in tr.nodes(model) if isinstance(node, (list, tuple))]
        if seqs:
          p = draw(st.sampled_from(seqs))
          n = len(tr.ref_get(model, p)) if p else len(model)
          tail = draw(st.sampled_from([[('i', n), ('i', 1)], [('i', n), ('i', 2)], [('i', n + 1)], [('i', n), ('k', 'a'), ('i', 1)],
                                       [('i', -n - 1)], [('i', n), ('i', 0), ('i', 1)]]))
          ops.append({'path': [list(c) for c in tuple(p) + tuple(tail)], 'value': {'v': 1}, 'raw': False, 'bad': True})
          continue
      kind, path = draw(_path_for(model))
      if kind == 'array-elem':
        vj = {'v': draw(st.integers(10, 20))}
      else:
        vj = draw(_tree(2, True))
      op = {'path': path, 'value': vj, 'raw': draw(st.booleans())}
      if kind == 'existing' and draw(st.integers(0, 3)) == 0:
        op['neg'] = True           # index components of an existing path are written from the end (-1 is the last element)
      ops.append(op)
      model = tr.ref_set(model, tr.npath(path), tr.decode(vj))
      if not tr.is_container(model):
        break
    return {'tree': tj, 'ops': ops, 'share': share, 'chain': draw(st.booleans()), 'iterate': draw(st.booleans())}
  return s()


# ------------------------------------------------------------------------------ views
def _tag(x):
  return ('M', x)


def _ref_map(t):
  if isinstance(t, dict) and t:
    return {k: _ref_map(v) for k, v in t.items()}
  if isinstance(t, (list, tuple)) and t:
    r = [_ref_map(v) for v in t]
    return tuple(r) if isinstance(t, tuple) else r
  return _tag(t)


def _eq_mapped(a, b):
  """deep equality where mapped leaves are ('M', leaf) tuples compared by identity of the leaf."""
  if isinstance(b, tuple) and len(b) == 2 and b[0] == 'M' and not tr.is_container(b[1]) or (
      isinstance(b, tuple) and len(b) == 2 and b[0] == 'M' and isinstance(a, tuple) and len(a) == 2 and a[0] == 'M'):
    return isinstance(a, tuple) and len(a) == 2 and a[0] == 'M' and a[1] is b[1]
  if type(a) is not type(b):
    return False
  if isinstance(a, dict):
    return list(a) == list(b) and all(_eq_mapped(a[k], b[k]) for k in a)
  if isinstance(a, (list, tuple)):
    return len(a) == len(b) and all(_eq_mapped(x, y) for x, y in zip(a, b))
  return False


def run_views(case):
  from ml_metrics._src.chainables import tree  # pylint: disable=g-import-not-at-top
  data = tr.decode(case['tree'])
  shared = bool(case.get('share')) and tr.share(data, *case['share'])
  snap = tr.snapshot(data)
  view = tree.TreeMapView(data)
  ref_leaves = list(tr.leaves(data))
  what = f'TreeMapView({snap!r})'
  # leaf enumeration: each leaf exactly once, DFS order, path reads back the leaf
  keys = _guard(lambda: list(view.keys()), f'{what}.keys()')
  want_keys = [_key(p) for p, _ in ref_leaves]
  check(keys == want_keys and [type(k) for k in keys] == [type(k) for k in want_keys], 'leaf-enumeration-differs',
        f'{what}.keys() = {keys!r}, reference {want_keys!r}')
  check(_guard(lambda: len(view), f'len({what})') == len(ref_leaves), 'wrong-len', f'{what}: len {len(view)}')
  for k, (p, leaf) in zip(keys, ref_leaves):
    g = _guard(lambda k=k: view[k], f'{what}[{k!r}]')
    check(g is leaf, 'path-does-not-read-leaf', f'{what}[{k!r}] = {g!r}, leaf is {leaf!r}')
  vals = _guard(lambda: view.values(), f'{what}.values()')
  check(len(vals) == len(ref_leaves) and all(v is l for v, (_, l) in zip(vals, ref_leaves)), 'values-misaligned',
        f'{what}.values() = {vals!r}')
  items = _guard(lambda: list(view.items()), f'{what}.items()')
  check([k for k, _ in items] == want_keys and all(v is l for (_, v), (_, l) in zip(items, ref_leaves)),
        'items-misaligned', f'{what}.items() = {items!r}')
  # multi-key read: aligned with the keys, mixing paths, Literal and SELF
  lit = object()
  multi, want, raw_at = [], [], set()
  for m in case['multi']:
    if m == 'LIT':
      multi.append(tree.Key.Literal(lit)); want.append(lit)
    elif m == 'SELF':
      multi.append(tree.Key.SELF); want.append(data)
    else:
      p = tr.npath(m)
      if len(p) == 1 and p[0][0] == 'k' and isinstance(p[0][1], tuple) and case.get('raw_tuple_keys'):
        multi.append(p[0][1])      # a tuple-typed dict key given as a plain tuple inside the multi-key tuple: one literal key
        raw_at.add(len(multi) - 1)
      else:
        multi.append(_key(p) if (len(p) != 1 or p[0][0] == 'i' or case.get('as_key') or isinstance(p[0][1], tuple)) else p[0][1])
      want.append(tr.ref_get(data, p))
  if multi:
    got = _guard(lambda: view[tuple(multi)], f'{what}[{tuple(multi)!r}]')
    check(isinstance(got, tuple) and len(got) == len(want) and all(_same(g, w) for g, w in zip(got, want)),
          'multi-key-misaligned', f'{what}[{tuple(multi)!r}] = {got!r}, want {want!r}')
    # key_paths restricts iteration to the given keys, in the given order (None values filtered: documented)
    # (key_paths holds Key objects: there a plain tuple is not a literal key)
    multi = [_key(tr.npath(case['multi'][i_])) if i_ in raw_at else m for i_, m in enumerate(multi)]
    kp = tuple(m for m, w in zip(multi, want))
    v2 = tree.TreeMapView(data, key_paths=kp)
    exp = [(k, w) for k, w in zip(multi, want) if w is not None]
    got_items = _guard(lambda: [(k, v2[k]) for k in v2], f'{what} with key_paths')
    check(len(got_items) == len(exp) and all(gk is ek and _same(gv, ev) for (gk, gv), (ek, ev) in zip(got_items, exp)),
          'key_paths-iteration-differs', f'{what} key_paths={kp!r}: {got_items!r}')
    # apply() over selected key paths: exactly those paths are replaced by their mapped value, the viewed data stays as it was
    sel = [(k, tr.npath(m)) for k, m in zip(multi, case['multi']) if m not in ('LIT', 'SELF')]
    sel = [(k, p_) for k, p_ in sel if tr.ref_get(data, p_) is not None]
    unrelated = all(not tr.related(a[1], b[1]) for i_, a in enumerate(sel) for b in sel[i_ + 1:])
    if sel and unrelated and not shared:
      wrap = lambda v: ('W', v)
      model_sel = data
      for _, p_ in sel:
        model_sel = tr.ref_set(model_sel, p_, wrap(tr.ref_get(data, p_)))
      kp_sel = tuple(k for k, _ in sel)
      got_sel = _guard(lambda: tree.TreeMapView.as_view(data, key_paths=kp_sel, map_fn=wrap).apply(), f'{what} key_paths={kp_sel!r} apply()')
      check(tr.deep_equal(got_sel, model_sel), 'apply-over-key-paths-differs',
            f'as_view({snap!r}, key_paths={kp_sel!r}, map_fn=wrap).apply() = {got_sel!r}, reference {model_sel!r}')
      check(tr.deep_equal(data, snap), 'original-mutated', f'as_view({snap!r}, key_paths={kp_sel!r}, map_fn=wrap).apply() changed the viewed data: {data!r}')
  check(_guard(lambda: view[()], f'{what}[()]') == (), 'empty-multikey', '')
  # apply: maps every leaf and only leaves, keeps container types, source unchanged
  mapped = _guard(lambda: tree.TreeMapView.as_view(data, map_fn=_tag).apply(), f'{what}.apply(map_fn)')
  check(_eq_mapped(mapped, _ref_map(data)), 'apply-differs', f'{what}.apply(tag) = {mapped!r}, reference {_ref_map(data)!r}')
  check(tr.deep_equal(data, snap), 'original-mutated', f'{what} changed by reads/apply: {data!r}')
  # SKIP sets nothing; multi-key set with a SKIP in the middle only sets the others
  sk = _guard(lambda: view.copy_and_set(tree.Key.SKIP, 123).data, f'{what}.copy_and_set(SKIP, 123)')
  check(tr.deep_equal(sk, snap), 'skip-sets-something', f'{what}.copy_and_set(SKIP) -> {sk!r}')
  upd = case.get('update') or []
  if upd:
    # {'orig': 1}: the pair puts back the very object the viewed data holds at that path (after earlier pairs changed it or an ancestor)
    pairs = [(tr.npath(p), tr.ref_get(data, tr.npath(p)) if vj == {'orig': 1} else tr.decode(vj)) for p, vj in upd]
    model = data
    for p, v in pairs:
      model = tr.ref_set(model, p, v)
    ks = tuple(_key(p) for p, _ in pairs)
    vs = tuple(v for _, v in pairs)
    dups = len({repr(k) for k in ks}) != len(ks)
    # an iterable of pairs is applied in the given order (the same path may come twice, with related paths in between)
    r2 = _guard(lambda: view.copy_and_update(list(zip(ks, vs))).data, f'{what}.copy_and_update(pairs)')
    check(tr.deep_equal(r2, model), 'copy_and_update-differs', f'{what}.copy_and_update(pairs {list(zip(ks, vs))!r}) = {r2!r}, reference {model!r}')
    r2g = _guard(lambda: view.copy_and_update((kv for kv in zip(ks, vs))).data, f'{what}.copy_and_update(generator of pairs)')
    check(tr.deep_equal(r2g, model), 'copy_and_update-differs', f'{what}.copy_and_update(generator of pairs) = {r2g!r}, reference {model!r}')
    if not dups:
      r1 = _guard(lambda: view.copy_and_update(dict(zip(ks, vs))).data, f'{what}.copy_and_update(mapping {ks!r})')
      check(tr.deep_equal(r1, model), 'copy_and_update-differs', f'{what}.copy_and_update({dict(zip(ks, vs))!r}) = {r1!r}, reference {model!r}')
      r3 = _guard(lambda: (view | dict(zip(ks, vs))).data, f'{what} | mapping')
      check(tr.deep_equal(r3, model), 'copy_and_update-differs', f'view | mapping = {r3!r}')
      # SKIP in a multi-key set: the skipped value is dropped, the others land on their own keys
      ks2 = ks[:1] + (tree.Key.SKIP,) + ks[1:]
      vs2 = vs[:1] + ('dropped',) + vs[1:]
      r4 = _guard(lambda: view.copy_and_set(ks2, vs2).data, f'{what}.copy_and_set({ks2!r}, ...)')
      check(tr.deep_equal(r4, model), 'skip-misaligns-multiset', f'{what}.copy_and_set({ks2!r}, {vs2!r}) = {r4!r}, reference {model!r}')
    check(tr.deep_equal(data, snap), 'original-mutated', f'{what} changed by copy_and_update: {data!r}')
  paths = [p for p, _ in ref_leaves]
  nt = _depth(data) >= 2 and any(len(p) >= 2 and sum(1 for q in paths if q[0] == p[0]) >= 2 for p in paths)
  cl = [f'depth-{_depth(data)}'] + (['shared-subtree'] if shared else [])
  if upd:
    cl.append('update')
  if multi:
    cl.append('multi-key')
  return {'nontrivial': nt, 'classes': cl}


def strat_views(tier):
  @st.composite
  def s(draw):
    tj = draw(_root(4, False))
    if draw(st.integers(0, 14)) == 0:
      # a wide tree: one small nested row repeated, more than 2**6 leaves in total
      row = draw(_tree(3, False).filter(lambda j: next(iter(j)) in 'dlt' and bool(next(iter(j.values())))))
      tj = {'l': [row] * draw(st.sampled_from([33, 65, 70]))}
    data = tr.decode(tj)
    share = [draw(st.integers(0, 5)), draw(st.integers(0, 5))] if draw(st.integers(0, 3)) == 0 else None
    if share:
      tr.share(data, *share)
    node_paths = [p for p, _ in tr.nodes(data) if p]
    multi = []
    for _ in range(draw(st.integers(0, 4))):
      which = draw(st.integers(0, 9))
      if which == 0:
        multi.append('LIT')
      elif which == 1:
        multi.append('SELF')
      else:
        multi.append([list(c) for c in draw(st.sampled_from(node_paths))])
    upd = []
    model = data
    for _ in range(draw(st.integers(0, 3))):
      kind, path = draw(_path_for(model))
      if kind == 'self' or not path:
        continue
      vj = {'v': draw(st.integers(10, 20))} if kind == 'array-elem' else draw(_tree(2, False))
      model = tr.ref_set(model, tr.npath(path), tr.decode(vj))
      upd.append([path, vj])
    # the same path may be set twice (only the pair forms of copy_and_update are exercised then)
    first_is_array_elem = bool(upd) and isinstance(upd[0][1].get('v'), int) and not isinstance(upd[0][1].get('v'), bool) and upd[0][1]['v'] >= 10
    if upd and not first_is_array_elem and draw(st.integers(0, 3)) == 0:
      p0, vj = upd[0][0], draw(_tree(2, False))
      try:      # the path may have stopped existing (an ancestor was replaced by a leaf in between): then no repeat
        model = tr.ref_set(model, tr.npath(p0), tr.decode(vj))
        upd.append([p0, vj])
      except (TypeError, KeyError, IndexError, AssertionError, ValueError):
        pass      # (ValueError: the path is an element of a numeric array and the drawn value is not a number)
    if upd and node_paths and draw(st.integers(0, 2)) == 0:
      # a later pair sets a path back to the object it held originally (an earlier pair may have changed it, or replaced an ancestor)
      related = [q for q in node_paths if any(tr.related(tuple(map(tuple, q)), tr.npath(u[0])) for u in upd)]
      q = draw(st.sampled_from(related or node_paths))
      try:
        model = tr.ref_set(model, tr.npath([list(c) for c in q]), tr.ref_get(data, tr.npath([list(c) for c in q])))
        upd.append([[list(c) for c in q], {'orig': 1}])
      except (TypeError, KeyError, IndexError, AssertionError, ValueError):
        pass      # the path no longer exists / cannot hold the original object (e.g. an array element given a container back)
    upd2 = upd
    return {'tree': tj, 'multi': multi, 'update': upd2, 'as_key': draw(st.booleans()), 'share': share,
            'raw_tuple_keys': draw(st.booleans())}
  return s()


_FUZZ_MODS = ('ml_metrics._src.chainables.tree',)

SCENARIOS = [
    Scenario('laws', run_laws, strategy=strat_laws, budget={'quick': 3000, 'thorough': 60000},
             shards={'quick': 8, 'thorough': 16}, fuzz_runs={'quick': 1200, 'thorough': 150000}, instrument=_FUZZ_MODS),
    Scenario('views', run_views, strategy=strat_views, budget={'quick': 2000, 'thorough': 40000},
             shards={'quick': 8, 'thorough': 16}, fuzz_runs={'quick': 1200, 'thorough': 150000}, instrument=_FUZZ_MODS),
]
