"""C03 — results do not depend on the execution strategy."""
from __future__ import annotations

import copy
import json
import os

from hypothesis import strategies as st

from vlib import dsched, pipegen, targets
from vlib.core import Scenario, Violation, Inconclusive, check, crash
from props.c02 import norm_result
from props.c04 import schedule_strategy

PROPERTY = 'C03'
LEVEL = 'exploration'
RULE = ('case = (operator program of assign/filter operators from the C08 grammar + an exact row-wise aggregate, 0..9 records, an '
        'execution strategy: num_threads 1..4 under a generated schedule on the deterministic scheduler | a random split of the '
        'operator list into 1..4 named chained stages | the same split chained under one name (fused) | rebuilt from '
        'named_transforms() | k = 1..6 shards (incl. k > n) whose states are merged | run_pipeline_interleaved in process); oracle = '
        'differential against the sequential single-stage run of the same case: equal multiset of emitted records and equal '
        'aggregate, exactly one AggregateResult for the interleaved runner; non-trivial = threads >= 2 or stages >= 2 or shards >= 2 '
        'with >= 3 records; distinct = distinct canonical case JSON'
        '; also: sources as merged sequences with boundaries at shard ends, shard states merged from a one-shot stream, stage-by-stage manual runs, interleaved runs with aggregate_only, shard states merged by the aggregate-only runner, a second aggregate with a bare-number state (minimum) and a third counting rows in a plain int, merges with and without a strict state count; scenario threads_line_preemption: named stages with their own thread counts (0 / 2 / 3 per stage) under the deterministic scheduler with 1..4 generated preemptions between source lines of the library (positions drawn as fractions of the line count of the run)')
ASSUMPTIONS = [
    'threaded variants run under vlib/dsched.py (same trusted base as C04); the interleaved runner uses real threads with a watchdog',
    'the aggregate is exact (integer sum / row count) so merged shard states must reproduce it exactly',
]


def setup():
  from ml_metrics._src.utils import iter_utils  # pylint: disable=g-import-not-at-top
  dsched.install(iter_utils)


def setup_lines():
  import ml_metrics  # pylint: disable=g-import-not-at-top
  setup()
  dsched.set_line_root(os.path.dirname(os.path.realpath(ml_metrics.__file__)) + os.sep)


def setup_real():
  pass


def _canon(x):
  return json.dumps(x, sort_keys=True, default=str)


def _with_agg(t):
  # ... and a second aggregate whose state is a bare number (falsy when the smallest value so far is 0)
  return t.aggregate(targets.RowSum(), input_keys=('a', 'b'), output_keys=('rs', 'rn')).add_aggregate(
      fn=targets.RowMin(), input_keys='b', output_keys='bmin').add_aggregate(
          fn=targets.RowCount(), input_keys='a', output_keys='rcount')


def build_stages(case, records, names, shard=None):
  """Chains the program split at case['cuts'] into len(names) transforms named `names`, aggregate in the last one."""
  from ml_metrics._src.chainables import io, transform  # pylint: disable=g-import-not-at-top
  ops = case['prog']['ops']
  cuts = [0] + list(case.get('cuts', [])) + [len(ops)]
  groups = [ops[a:b] for a, b in zip(cuts, cuts[1:])]
  T = transform.TreeTransform
  chain = None
  for gi, (g, nm) in enumerate(zip(groups, names)):
    stage_threads = case.get('stage_threads')
    t = T.new(name=nm, num_threads=(stage_threads[gi] if stage_threads else case.get('num_threads', 0) if gi == 0 else 0))
    if gi == 0:
      recs = copy.deepcopy(records)
      if case.get('splits'):
        # the records come as several sequences merged into one source (shard and thread ranges may end on their boundaries)
        cuts_ = [0] + sorted(min(c, len(recs)) for c in case['splits']) + [len(recs)]
        src = io.SequenceDataSource.from_sequences([recs[a:b] for a, b in zip(cuts_, cuts_[1:])])
      else:
        src = io.SequenceDataSource(recs)
      t = t.data_source(src if shard is None else src.shard(*shard))
    for op in g:
      t = pipegen.add_op(t, op, [])
    if gi == len(groups) - 1:
      t = _with_agg(t)
    elif gi == 0 and case.get('mid_agg') and len(groups) >= 2 and len(set(names)) == len(names):
      # a second aggregating stage earlier in the chain (records flow on unchanged)
      t = t.aggregate(targets.RowSum(), input_keys='c', output_keys=('ms', 'mn'))
    chain = t if chain is None else chain.chain(t)
  return chain


def build_stages_plain(case, records):
  from ml_metrics._src.chainables import io, transform  # pylint: disable=g-import-not-at-top
  t = transform.TreeTransform.new(name='P').data_source(io.SequenceDataSource(copy.deepcopy(records)))
  for op in case['prog']['ops']:
    t = pipegen.add_op(t, op, [])
  return t


def baseline(case):
  c = dict(case, cuts=[], num_threads=0, stage_threads=None)
  it = build_stages(c, case['records'], ['P']).make().iterate()
  out = list(it)
  agg = norm_result(it.agg_result)
  if case.get('mid_agg') and len(case.get('cuts', [])) >= 1 and case['strategy']['kind'] in ('stages', 'named', 'manual', 'shards', 'interleaved', 'threads_chain'):
    # reference value of the extra aggregate of the first stage: over the records that reach the end of that stage
    first = dict(case, prog={'ops': case['prog']['ops'][:case['cuts'][0]]}, cuts=[], num_threads=0, mid_agg=False, stage_threads=None)
    recs = list(build_stages_plain(first, case['records']).make().iterate())
    agg['ms'], agg['mn'] = sum(int(r['c']) for r in recs), len(recs)
  return out, agg


def run_case(case):
  from ml_metrics._src.chainables import io  # pylint: disable=g-import-not-at-top
  records, strat_ = case['records'], case['strategy']
  what = f'{ {k: v for k, v in case.items() if k not in ("records", "schedule")} } records={records}'
  try:
    want_out, want_agg = baseline(case)
  except Exception as e:  # pylint: disable=broad-exception-caught
    raise RuntimeError(f'baseline failed (generator bug): {e!r}') from e
  kind = strat_['kind']
  extra = {}
  if kind == 'threads':
    box = {}

    def main():
      it = build_stages(dict(case, cuts=[], num_threads=strat_['n']), records, ['P']).make().iterate()
      box['out'] = list(it)
      box['agg'] = norm_result(it.agg_result)
    try:
      _, s = dsched.run(main, case['schedule'], max_steps=60000)
    except dsched.Deadlock as e:
      raise Violation('deadlock', f'{what}: {e}') from e
    except dsched.StepBudget as e:
      raise Inconclusive(str(e)) from e
    except Exception as e:  # pylint: disable=broad-exception-caught
      raise crash(e, what) from e
    got_out, got_agg = box['out'], box['agg']
    extra = {'scheduling_points': s.steps, 'preemptions': s.preemptions}
  elif kind == 'threads_chain':
    # named stages with their own thread counts, under the deterministic scheduler *with line-level preemption*: a thread
    # can lose the processor between any two source lines of the library, so state shared by the worker threads of a stage
    # (the upstream stage's iterator, its batch counter and aggregate state) must be protected by the library itself
    n = len(case.get('cuts', [])) + 1
    names = [f'S{i}' for i in range(n)]

    def run_once(schedule):
      box = {}

      def main():
        it = build_stages(case, records, names).make().iterate()
        box['out'] = list(it)
        box['agg'] = norm_result(it.agg_result)
      _, s = dsched.run(main, schedule, max_steps=80000)
      return box, s
    try:
      # calibration: the same schedule without line preemption tells how many library lines the run executes
      _, s0 = run_once(dict(case['schedule'], count_lines=True))
      total = max(s0.lines, 1)
      targets_ = [[1 + int(f * (total - 1)), c] for f, c in case['line_fracs']]
      box, s = run_once(dict(case['schedule'], line_preempt=targets_))
    except dsched.Deadlock as e:
      raise Violation('deadlock', f'{what}: {e}') from e
    except dsched.StepBudget as e:
      raise Inconclusive(str(e)) from e
    except Exception as e:  # pylint: disable=broad-exception-caught
      raise crash(e, what) from e
    got_out, got_agg = box['out'], box['agg']
    extra = {'scheduling_points': s.steps, 'preemptions': s.preemptions, 'library_lines': s.lines, 'line_preemptions': s.line_preemptions}
  elif kind in ('stages', 'fused', 'named'):
    n = len(case.get('cuts', [])) + 1
    names = [f'S{i}' for i in range(n)] if kind != 'fused' else ['F'] * n
    try:
      t = build_stages(case, records, names)
      if kind == 'named':
        parts = list(t.named_transforms().values())
        t = parts[0]
        for p in parts[1:]:
          t = t.chain(p)
      it = t.make().iterate()
      got_out = list(it)
      got_agg = norm_result(it.agg_result)
    except Exception as e:  # pylint: disable=broad-exception-caught
      raise crash(e, what) from e
  elif kind == 'manual':
    # the named stages are run one after the other by hand: each stage's runner iterates the previous stage's iterator
    n = len(case.get('cuts', [])) + 1
    try:
      t = build_stages(case, records, [f'S{i}' for i in range(n)])
      parts = list(t.named_transforms().values())
      its = [parts[0].make().iterate()]
      for part in parts[1:]:
        its.append(part.make().iterate(its[-1]))
      got_out = list(its[-1])
      got_agg = {}
      for it_ in its:
        res = it_.agg_result
        if res is not None:
          got_agg.update({k: v for k, v in norm_result(res).items() if k != '__not_a_mapping__'})
    except Exception as e:  # pylint: disable=broad-exception-caught
      raise crash(e, what) from e
  elif kind == 'shards':
    k = strat_['k']
    try:
      n = len(case.get('cuts', [])) + 1
      t = build_stages(case, records, [f'S{i}' for i in range(n)])
      runner = t.make()
      if strat_.get('merge_with') == 'aggregate_runner':
        # the merging side only needs the aggregations (this is how the orchestration layer merges shard states)
        from ml_metrics._src.chainables import transform  # pylint: disable=g-import-not-at-top
        runner = t.make(mode=transform.RunnerMode.AGGREGATE)
      got_out, states = [], []
      for i in range(k):
        it = build_stages(case, records, [f'S{j}' for j in range(n)], shard=(i, k)).make().iterate()
        got_out += list(it)
        states.append(it.agg_state)
      order = strat_.get('order') or list(range(k))
      states = [states[i % k] for i in order] if sorted(i % k for i in order) == list(range(k)) else states
      # the shard states arrive as a list or, as from the orchestration layer, as a one-shot stream
      merged = runner.merge_states(iter(states) if strat_.get('merge_from') == 'iterator' else states,
                                   strict_states_cnt=k if strat_.get('strict', True) else 0)
      got_agg = norm_result(runner.get_result(merged))
    except Exception as e:  # pylint: disable=broad-exception-caught
      raise crash(e, what) from e
  elif kind == 'interleaved':
    from ml_metrics._src.chainables import orchestrate, transform  # pylint: disable=g-import-not-at-top
    from vlib import dist  # pylint: disable=g-import-not-at-top
    n = len(case.get('cuts', [])) + 1
    t = build_stages(case, records, [f'S{i}' for i in range(n)])
    got_out, info = [], {}

    def body():
      with orchestrate.run_pipeline_interleaved(t, aggregate_only=bool(strat_.get('aggregate_only'))) as runner:
        for x in runner.result_queue:
          got_out.append(x)
      info['returned'] = list(runner.result_queue.returned)
    status, res = dist.run_with_watchdog(body, 60)
    check(status != 'hang', 'hang', f'{what}: interleaved runner still going after 60 s')
    if status == 'error':
      raise crash(res, what)
    rets = [r for r in info['returned'] if isinstance(r, transform.AggregateResult)]
    check(len(rets) == 1 and len(info['returned']) == 1, 'not-exactly-one-final-aggregate', f'{what}: returned {info["returned"]!r}')
    got_agg = norm_result(rets[0].agg_result)
    # the interleaved runner hands out the aggregate of its last stage only
    check({'rs', 'rn'} <= set(got_agg), 'aggregate-depends-on-strategy', f'{what}: last stage returned {got_agg}')
    want_agg = {k: v for k, v in want_agg.items() if k in got_agg}
    if strat_.get('aggregate_only'):
      # only the final aggregate is asked for: the last stage hands out a None placeholder per batch, never data
      check(all(x is None for x in got_out), 'emitted-batches-depend-on-strategy', f'{what}: aggregate_only run emitted {got_out!r}')
      got_out, want_out = [], []
  else:
    raise ValueError(kind)
  check(sorted(map(_canon, got_out)) == sorted(map(_canon, want_out)), 'emitted-batches-depend-on-strategy',
        f'{what}: {kind} run emitted {sorted(map(_canon, got_out))}, sequential run {sorted(map(_canon, want_out))}')
  check(got_agg == want_agg, 'aggregate-depends-on-strategy', f'{what}: {kind} run aggregate {got_agg}, sequential run {want_agg}')
  size = strat_.get('n', strat_.get('k', len(case.get('cuts', [])) + 1))
  classes = [f'strategy-{kind}', f'size-{min(size, 4)}']
  if kind == 'threads_chain':
    size = max(case['stage_threads'])
    classes += [f'line-preemptions-{min(extra["line_preemptions"], 3)}',
                'threaded-stage-after-aggregating-stage' if len(case['stage_threads']) >= 2 and case.get('mid_agg') and max(case['stage_threads'][1:]) >= 2
                else 'other-chain']
    return {'nontrivial': size >= 2 and len(records) >= 3 and extra['line_preemptions'] >= 1, 'classes': classes, 'extra': extra}
  return {'nontrivial': size >= 2 and len(records) >= 3, 'classes': classes, 'extra': extra}


def _base_case(draw):
  prog = draw(pipegen.programs(max_ops=5, allow_batch=False, allow_sink=False, scalar_start=False, allow_select=False, allow_apply=False))
  records = draw(st.lists(pipegen.record_strategy(), min_size=0, max_size=9))
  if draw(st.integers(0, 5)) == 0:
    # long sources: shards longer than the 64-element read-ahead of the data source
    n = draw(st.integers(65, 210))
    records = [{'a': i % 10, 'b': (i * 7) % 10, 'c': i % 3, 'n': {'x': i % 5, 'y': [i % 2, i % 4]}} for i in range(n)]
  nops = len(prog['ops'])
  ncuts = draw(st.integers(0, min(3, nops)))
  cuts = sorted(draw(st.lists(st.integers(0, nops), min_size=ncuts, max_size=ncuts)))
  case = {'prog': prog, 'records': records, 'cuts': cuts, 'mid_agg': draw(st.booleans())}
  if records and draw(st.integers(0, 2)) == 0:
    n = len(records)
    # boundaries of the merged sequences: arbitrary, or exactly where k equal shards end
    k = draw(st.integers(2, 6))
    case['splits'] = draw(st.one_of(st.lists(st.integers(0, n), min_size=1, max_size=3),
                                    st.just(sorted({(n * i) // k for i in range(1, k)} | {-(-n * i // k) for i in range(1, k)}))))
  return case


def strat_sched(tier):
  @st.composite
  def s(draw):
    case = _base_case(draw)
    case['strategy'] = {'kind': 'threads', 'n': draw(st.integers(1, 4))}
    case['schedule'] = draw(schedule_strategy())
    return case
  return s()


def strat_lines(tier):
  @st.composite
  def s(draw):
    case = _base_case(draw)
    if len(case['records']) > 40:
      case['records'] = case['records'][:draw(st.integers(10, 40))]
    n = len(case['cuts']) + 1
    case['stage_threads'] = [draw(st.sampled_from([0, 0, 2, 3])) for _ in range(n)]
    if max(case['stage_threads']) < 2:
      case['stage_threads'][draw(st.integers(0, n - 1))] = draw(st.integers(2, 3))
    case['strategy'] = {'kind': 'threads_chain'}
    case['schedule'] = draw(schedule_strategy(max_choices=20))
    case['line_fracs'] = draw(st.lists(st.tuples(st.floats(0, 1, allow_nan=False), st.integers(0, 3)), min_size=1, max_size=4))
    return case
  return s()


def strat_structural(tier):
  @st.composite
  def s(draw):
    case = _base_case(draw)
    kind = draw(st.sampled_from(['stages', 'fused', 'named', 'manual', 'shards', 'shards']))
    if kind == 'shards':
      k = draw(st.integers(1, 6))
      case['strategy'] = {'kind': kind, 'k': k, 'order': draw(st.permutations(list(range(k)))),
                          'merge_from': draw(st.sampled_from(['list', 'iterator'])),
                          'merge_with': draw(st.sampled_from(['runner', 'aggregate_runner'])), 'strict': draw(st.booleans())}
    else:
      case['strategy'] = {'kind': kind}
    return case
  return s()


def strat_interleaved(tier):
  @st.composite
  def s(draw):
    case = _base_case(draw)
    case['strategy'] = {'kind': 'interleaved', 'aggregate_only': draw(st.booleans())}
    return case
  return s()


SCENARIOS = [
    Scenario('threads', run_case, strategy=strat_sched, setup=setup, budget={'quick': 1500, 'thorough': 25000},
             shards={'quick': 8, 'thorough': 16}),
    Scenario('threads_line_preemption', run_case, strategy=strat_lines, setup=setup_lines, budget={'quick': 400, 'thorough': 8000},
             shards={'quick': 8, 'thorough': 16}),
    Scenario('stages_and_shards', run_case, strategy=strat_structural, setup=setup_real, budget={'quick': 1500, 'thorough': 25000},
             shards={'quick': 4, 'thorough': 16}),
    Scenario('interleaved', run_case, strategy=strat_interleaved, setup=setup_real, budget={'quick': 150, 'thorough': 2500},
             shards={'quick': 4, 'thorough': 16}, nondeterministic=True),
]
