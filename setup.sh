#!/bin/bash
# Offline setup: make sure hypothesis is importable from /venv (wheelhouse only), sanity-import the framework.
set -e
here="$(cd "$(dirname "$0")" && pwd)"
cd "$here"
if ! /venv/bin/python -c "import hypothesis" 2>/dev/null; then
  PIP_NO_INDEX=1 /venv/bin/pip install --no-index --find-links /opt/veriftools/wheels hypothesis
fi
# atheris is supplementary (thorough tier only); install beside the checkout, never into /venv.
if [ ! -d "$here/.deps/atheris" ]; then
  PIP_NO_INDEX=1 /venv/bin/pip install -q --no-index --find-links /opt/veriftools/wheels --target "$here/.deps" atheris >/dev/null 2>&1 || echo "setup: atheris not installable (supplementary fuzz targets will be skipped)"
fi
mkdir -p evidence replays
PYTHONPATH="$here/vlib/fake_courier:$here:${VERIF_REPO:-/repo}" PYTHONDONTWRITEBYTECODE=1 /venv/bin/python - <<'PY'
import hypothesis, numpy, ml_metrics
from vlib import core, runner, unit
core.assert_repo()
print('setup ok: hypothesis', hypothesis.__version__, 'numpy', numpy.__version__, 'ml_metrics from', ml_metrics.__file__)
PY
