#!/usr/bin/env python3
"""tools/add_finding.py <id> <property> <scenario> <status> <commit|-> '<what>' '<case json>' : maintenance helper (never run by checks)."""
import json, os, sys
here = os.path.dirname(os.path.dirname(os.path.abspath(__file__)))
fid, prop, scen, status, commit, what, case = sys.argv[1:8]
case = json.loads(case)
kf = json.load(open(os.path.join(here, 'known_findings.json')))
kf['findings'] = [f for f in kf['findings'] if f['id'] != fid]
e = {'id': fid, 'status': status, 'property': prop, 'scenario': scen, 'what': what}
if status == 'fixed':
  e['commit'] = commit
  e['line'] = f'fixed: property={prop} {commit} {what}'
  os.makedirs(os.path.join(here, 'regress', prop), exist_ok=True)
  rf = os.path.join('regress', prop, f'fixed_{fid.lower()}.json')
  json.dump({'scenario': scen, 'expect': 'pass', 'note': e['line'], 'case': case}, open(os.path.join(here, rf), 'w'), indent=1, sort_keys=True)
  e['regress'] = rf
else:
  e['probe'] = case
kf['findings'].append(e)
json.dump(kf, open(os.path.join(here, 'known_findings.json'), 'w'), indent=1)
print('recorded', fid)
