#!/bin/bash
# Runs the repository's pinned test suite (guard OFF) and compares with /root/.vp/BASELINE.json stable_pass.
out=$(mktemp /tmp/baseline.XXXXXX.xml)
cd "${VERIF_REPO:-/repo}" && PYTHONPATH="${VERIF_REPO:-/repo}" /venv/bin/python -m pytest -ra -q -p no:cacheprovider --timeout=900 --continue-on-collection-errors -n "${N:-8}" --junitxml="$out" >/dev/null 2>&1
/venv/bin/python - "$out" <<'PY'
import sys, json, xml.etree.ElementTree as ET
root = ET.parse(sys.argv[1]).getroot()
passed=set(); bad=[]
for tc in root.iter('testcase'):
    name=f"{tc.get('classname')}::{tc.get('name')}"
    if any(ch.tag in('failure','error') for ch in tc): bad.append(name)
    elif not any(ch.tag=='skipped' for ch in tc): passed.add(name)
try:
    base=set(json.load(open('/root/.vp/BASELINE.json'))['stable_pass'])
except Exception: base=set()
missing=sorted(base-passed)
print(f'passed={len(passed)} failed_or_error={len(bad)} baseline={len(base)} baseline_not_passing={len(missing)}')
for m in missing[:20]: print('  NOT PASSING:', m)
sys.exit(1 if missing else 0)
PY
rc=$?; rm -f "$out"; exit $rc
