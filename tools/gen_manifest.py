#!/usr/bin/env python3
"""Generates /verif/MANIFEST.json from the table below (keeps it schema-valid at all times)."""
import json
import os
import sys

HERE = os.path.dirname(os.path.dirname(os.path.abspath(__file__)))

# id -> (category, technique, level text, level note, design ref)
CLAIMED = {
    'C19': ('exploration',
            'exhaustive small-scope enumeration + Hypothesis generation against a validity predicate (supplementary: coverage-guided atheris units on the same predicate)',
            'Every size sequence of length <=3 (quick) / <=4 (thorough) over batch sizes 0..5 x target 1..6 x 1..3 '
            'columns x list/tuple/1-d and 2-d ndarray x pad x num_columns is enumerated against the conservation/size/alignment '
            'predicate; Hypothesis covers longer streams and the TreeTransform re-batching options. Exploration is the '
            'right level: the property is a pure function of a small input and an executable validity predicate exists.',
            'cells encode (row, column) so any loss/duplication/misalignment is visible; columns of an input batch have '
            'equal length (documented precondition).', '§3 C19'),
    'C09': ('exploration',
            'exhaustive small-scope enumeration + Hypothesis generation; partition validity predicate and list differential',
            'All (n, k) up to n=12/24 and all two-level (k1, k2) <= 6 with every offset are enumerated for SequenceDataSource '
            '(single, multi-sequence, ndarray) and ShardedIterable; every composition of range(n<=5/8) into <=5 possibly-empty '
            'sub-sequences is checked at every index and every (start, stop) slice against a Python list; Hypothesis extends to '
            'n=500, depth 4, large read-ahead. The property is arithmetic over small integers, so small-scope exhaustion plus '
            'random larger cases is the appropriate level.',
            'reference = Python list semantics for index/slice/iterate/len; offsets in 0..len(shard) as produced by SequenceIterator.state.',
            '§3 C09'),
    'C18': ('exploration',
            'Hypothesis-generated trees and copy-and-set histories against a reference copy-on-write model plus get/set/frame laws',
            'Random nested dict/list/tuple/ndarray trees (depth<=4) with 1..6 copy-and-set operations on paths built by construction '
            '(existing, fresh key, append, multi-level fresh, array element, SELF); after every operation: original deep-equals its '
            'snapshot, result equals the reference set, get-after-set returns the value, every unrelated leaf is the same object, '
            're-setting the current value is a no-op; views: leaf enumeration vs reference DFS, multi-key alignment, Literal/SELF/'
            'SKIP, key_paths, apply(map_fn), copy_and_update. Pure data-structure laws with an executable reference: exploration.',
            'reference model in vlib/oracles/tree_ref.py; root is a container; the plain strings SELF/SKIP are ordinary dict keys; the '
            'same inner container may appear at two paths (never inside itself).',
            '§3 C18'),
    'C07': ('exploration',
            'Hypothesis-generated (metric, configuration, batch) cases against an independent plain-Python reference; alias/range/function-API metamorphic checks',
            'For each of 23 shipped accumulators (rolling stats, histogram, counter, samplers, Tjur R2, Pearson r, SPD, mean states, '
            'n-gram and pattern frequency, confusion-matrix families incl. top-k and samplewise, calibration histogram, thresholded '
            'and top-k retrieval) random configurations and batches are evaluated through every API they expose and compared with '
            'textbook definitions computed with math.fsum; all 29 confusion-matrix and 17 retrieval metrics are swept for alias '
            'equality, ranges and agreement of the one-shot function API; signal functions are compared with their definitions. '
            'A reference oracle exists, so exploration with an independent oracle is the right level.',
            'oracle self-test gate reproduces literals pinned by upstream tests before any case runs; values on an exactly '
            'representable grid; documented zero-denominator/NaN conventions; open finding F-C07-topk-truncation is steered around and reported.',
            '§3 C07'),
    'C01': ('exploration',
            'Hypothesis-generated datasets and shard/batch compositions; metamorphic oracle merged-shards == one whole-dataset batch, plus per-example independence',
            'For each of 23 registry entries a dataset (NaN entries, ragged rankings, 1-D/2-D) is cut into 1..4 shards (empty shards '
            'allowed) and each shard into batches of unequal size; the result of merging the shard accumulators (metric API: add/merge, '
            'aggregate API: update_state/merge_states, optionally starting from a fresh accumulator) must equal the single whole-batch '
            'accumulator under the entry comparator (float tolerance, exact concatenation for order-carrying accumulators, '
            'size/membership/reviewed-count for the reservoir sampler); for metrics returning per-example values every row must get '
            'the value it gets in a singleton batch. A metamorphic relation over generated compositions is exactly what the property '
            'states; exploration is the right level.',
            'explicit vocab for classification metrics, explicit range/edges for Histogram, equal seeds for samplers, non-negative '
            'input for MinMaxAndCount (documented preconditions); open finding F-C01-topk-truncation is steered around and reported.',
            '§3 C01'),
    'C11': ('exploration',
            'Hypothesis-generated merge bracketings/permutations and add/merge/result histories against a per-accumulator row-list model',
            'algebra: for each registry entry 2..5 states (some empty) are merged under random permutations and bracketings - all must '
            'give the reference value of the merged rows; an empty state must be neutral on both sides without raising; after '
            'merge(a <- b) b still reports its own rows, later updates to either side never leak into the other. histories: generated '
            'sequences of new/add/merge/result over a pool of accumulators where the model of an accumulator is the list of rows it '
            'absorbed; every read (single, repeated, after later adds) must equal the reference of exactly that list, through both the '
            'Metric and the AggregateFn API (merge_states may only modify its first state). Algebraic laws over generated histories: '
            'exploration with a model oracle is the right level.',
            'same input preconditions as C01; results only read from accumulators that absorbed data; histogram results additionally '
            'checked to be copies (documented).', '§3 C11'),
    'C08': ('exploration',
            'grammar-based Hypothesis generation of operator programs against a streaming reference interpreter; negative generation of invalid programs',
            'Programs of 1..6 operators are generated by construction from a schema-tracking grammar covering every key shape (single, '
            'tuple, Key path, Index, dict kwargs, dict renaming, SELF, SKIP, Literal) and run through iterate(), a data source and the '
            'per-record call; outputs must equal the reference interpreter, caller records must equal their deep-copied snapshot, '
            'values untouched by assign/filter/sink must be the identical objects, every sink must have seen exactly the reference '
            'stream once and be closed; select/apply/assign with batch_size over caller-owned list/array/tuple columns must emit the '
            're-batched stream and leave the caller\'s records, their column objects and an upstream sink\'s records unchanged. '
            '21 families of documented invalid combinations must raise while building/making, before an '
            'element is pulled. A reference interpreter over generated programs is the natural exploration-level oracle.',
            'functions of known arity/result shape from vlib/targets.py; batch(n) groups the current output keys as documented.',
            '§3 C08'),
    'C02': ('exploration',
            'Hypothesis-generated pipelines (stacked aggregates x slicer sets x entry points) and batched streams against a brute-force group-by',
            'Streams of 0..6 batches (categorical features whose values first appear in later batches, integer columns, ragged '
            'per-example lists) are aggregated by 1..3 stacked exact aggregates (single/tuple input and output keys, '
            'disable_slicing) under single-feature, cross, fan-out, restricted-value and intra-example mask slicers (one mask or one '
            'per input, filter or replace) through five entry points; the result must equal, as a mapping, a brute-force group-by '
            'over the concatenated rows (no MetricKey invented or dropped), and dropping the slicers must leave the unsliced keys '
            'unchanged. A brute-force reference exists, so exploration with a differential oracle is the right level.',
            'exact integer aggregates isolate C02 from floating-point batching (C01); masks shaped like the masked inputs (documented).',
            '§3 C02'),
    'C12': ('fault_enumeration',
            'Hypothesis-generated fault plans (failing values/positions per operator, missing keys, failing data-source reads) over generated programs; reference interpreter with the failing elements removed',
            'Faults are injected at generated positions into any operator kind of C08-grammar programs (several per stream, adjacent, '
            'first/last, skippable and other exception types), into input fetching (missing key) and into the data source (slice and '
            'single reads, sharded), with error skipping on and off, re-batching options on apply/assign and num_threads 0..2. '
            'Skipping on: output equals the reference run with exactly the failing elements removed (in order; multiset under '
            'threads) and every assigned value is still next to its own input. Skipping off: the first failing element surfaces with '
            'the original exception in the cause chain, exactly the earlier elements were delivered, sinks are closed, no helper '
            'thread survives. Also: the same runner used again with the other skipping setting, and pipelines without any operator. '
            'Enumerating fault positions against a reference is the appropriate level.',
            'all function-call errors are skippable (wrapped into ValueError), input-fetch and non-ValueError/TypeError source errors '
            'are not; threaded runs compared as multisets with a 30 s watchdog (re-run before reporting); open finding '
            'F-C12-assign-batch-skip steered around and reported.',
            '§3 C12'),
    'C10': ('exploration',
            'Hypothesis-generated next/checkpoint/restore/drain histories against an index-into-the-uninterrupted-run model',
            'Histories of next / checkpoint (optionally pickled) / restore(any earlier checkpoint) / drain are run over iterators of '
            'SequenceDataSource (plain, multi-sequence, sharded, nested-sharded), ShardedIterable (plain, sharded) and pipelines over '
            'them (fused or chained named stages, aggregates in either or both stages, optional filter). The model is the position in '
            'the uninterrupted run: after a restore the iterator must deliver exactly the remaining elements in order, and after a '
            'drain both agg_result and the AggregateResult returned through StopIteration must equal the uninterrupted ones; '
            'successive generations of restore are generated deliberately. Threaded pipelines are compared as multisets.',
            'exact aggregates; open finding F-C10-threaded-restore-skips-prefetched (num_threads > 0) is steered around and reported.',
            '§3 C10'),
    'C17': ('exploration',
            'Hypothesis-generated expression ASTs and make/pickle/clear/deref/flood histories against an eager interpreter with explicit LRU cache models',
            'Expression trees (depth <= 5) over counting callables - nested traced calls with lazy positional and keyword arguments, '
            'traced class -> instance -> attribute / item / method / call chains, cache_result_ and lazy_result_ flags, raising '
            'callables - are materialised directly and after a pickle round trip inside histories that also clear the caches, '
            'dereference lazy-result handles and flood the caches past their bounds (128 / 1024). An eager interpreter over the same '
            'AST with explicit OrderedDict LRU models predicts every value, the identity of cached results, the exact number of '
            'function invocations per step, cache_info() and when LazyObjectMissingError must be raised. LruCache itself is driven '
            'as a state machine against the same model for maxsize 1..5.',
            'callables are importable (vlib/targets.py); cache keys modelled by structural equality of the expression.',
            '§3 C17'),
    'C04': ('exploration',
            'schedule-as-data exploration: Hypothesis generates queue configurations and thread schedules executed by a deterministic scheduler; history-invariant oracle; deadlocks decided structurally',
            'Every lock, condition, queue, thread and pool of iter_utils is replaced (by rebinding module attributes, no source '
            'change) with shims of a baton-passing scheduler, so the interleaving is generated data: explicit preemption choices + '
            'seeded walk, PCT priority schedules and the non-preemptive baseline. 1..3 producers x buffer 0..3 x 1..3 consumers in '
            'four modes are run under thousands of distinct schedules; the oracle checks exactly-once delivery, per-producer order, '
            'termination of every consumer with all return values, producers returning, and that no explored schedule ends with a '
            'blocked thread (a lost wake-up is a structural deadlock, not a timeout). This is exploration of sampled interleavings, '
            'not a proof over all of them.',
            'trusted base: the shim semantics (self-tested), preemption only at synchronisation operations, no spurious wake-ups; '
            'max_enqueuer preset as all callers do; consumers use get/get_batch/iteration.',
            '§2.2, §3 C04'),
    'C05': ('fault_enumeration',
            'fault plans (failing producer position, external stop point, stalls under a timeout) x generated thread schedules on the deterministic scheduler; termination/propagation invariants; deadlocks decided structurally',
            'On top of the C04 configurations a generated fault is injected: producer i raises at position p (several exception '
            'types), a controller thread issues maybe_stop() / maybe_stop(exc) at a schedule-chosen point (including before '
            'producers start and while the bounded buffer is full), or a producer/consumer stalls on the virtual clock with a queue '
            'timeout configured. Invariants: every consumer ends with the producer\'s exception (never StopIteration, never '
            'blocked), nothing is delivered twice, all other producers return and the failing one re-raises; after a stop every '
            'thread finishes; the starved side raises TimeoutError at the virtual deadline; no explored schedule ends with a blocked '
            'thread. A second scenario runs an AsyncIteratorQueue with 1..3 async producers on a real event loop, one failing while '
            'the others are parked inside their iterators: every consumer must see the exception meanwhile. Also: a producer whose '
            'iterable cannot be opened, a consumer issuing a plain stop after the error, timeouts of 0, queues that count their '
            'producers themselves, producers failing with the builtin TimeoutError. Fault positions and '
            'schedules are enumerated/sampled, so fault_enumeration is the level.',
            'same scheduler trusted base as C04; stalls are long virtual sleeps so only the configured timeout can end them.',
            '§2.2, §3 C05'),
    'C13': ('exploration',
            'generated API/parallelism/outcome configurations x generated thread schedules on the deterministic scheduler (shim executor); multiset differential against sequential evaluation + thread-release invariants',
            'pmap, piter, piter_fn, piter_multiplex and MultiplexIterator are driven with parallelism 0..3, buffers 0..3, 1..3 input '
            'generators and four outcomes (exhaust, stop after m elements via num_steps or maybe_stop, an input raising at position '
            'p, the mapped function raising on a value) under generated schedules. Checked: outputs are exactly the sequential '
            'multiset on exhaustion (a duplicate-free sub-multiset otherwise), generator return values are collected, the consumer '
            'sees the failure, every task submitted to the pool finishes, no virtual thread stays blocked (structural deadlock '
            'detection) and MultiplexIterator shuts its pool down. Also: two piter() pipelines on default pools drained in the opposite '
            'order, and a consumer that receives KeyboardInterrupt inside next() of a MultiplexIterator (helpers still finish).',
            'same scheduler trusted base as C04 (in particular: races that need a switch inside one bytecode sequence, e.g. a lock-free '
            'shared generator, are not generated); early stop only for results that are Stoppable themselves.',
            '§2.2, §3 C13'),
    'C15': ('exploration',
            'generated protocol histories (init / next_batch / re-init / stop_prefetch / shutdown) x generated thread schedules on the deterministic scheduler; sequence oracle over the answers',
            'A real PrefetchedCourierServer runs with its threading/time rebound to the deterministic scheduler; a virtual client '
            'thread initialises generator A (length 0..6, return value, optional failure position), requests batches of size 0..4 with '
            'prefetch sizes 1..3, optionally re-initialises with generator B mid-stream while a second virtual thread may call '
            'stop_prefetch or request shutdown at a schedule-chosen point. The answers must concatenate to exactly the generator\'s '
            'elements in order, each once, followed by exactly one terminal marker (StopIteration(ret) or the generator\'s own '
            'exception after all elements produced before it), never mix two generators after a re-init returned, end with a '
            'retriable TimeoutError after stop/shutdown, and no request may block forever (structural deadlock detection). Two '
            'further scenarios: two overlapping init_generator requests under generated schedules (the installed generator is '
            'delivered faithfully, no prefetch thread of a replaced generator stays blocked), and the client side of the protocol '
            '(CourierClient.async_iterate against the real server over the in-process transport: elements, return value once, or '
            'the generator\'s exception type and message). Also: an initialisation that fails on the server followed by a request (must '
            'be answered, not block), and the server\'s own serving loop with a short auto-shutdown period on the virtual clock while '
            'a slow client keeps requesting.',
            'same scheduler trusted base as C04; in the scheduler scenarios handlers are called directly.',
            '§2.2, §3 C15'),
    'C20': ('exploration',
            'model-based histories for the heartbeat registry (parked/late replies on a fake transport, harness clock); ownership histories of several pools over generated thread schedules on the deterministic scheduler; pool-level operations on the fake transport',
            '(a) register/refresh/unregister events with non-monotone times, clock advances across the threshold, liveness polls and '
            'late or failed heartbeat replies (parked by the transport and released later) are generated against a model addr -> '
            'last | DEAD: a dead worker is never alive again without register, recorded heartbeats never decrease under refresh, '
            'is_alive is exactly now - last < threshold; concurrent registry operations from 2..3 virtual threads must end in a '
            'state allowed by some linearisation. (b) 2..3 WorkerPools over the same Worker singletons run generated acquire_all / '
            'next_idle_worker / acquire_by / release_all / release operations, one virtual thread per pool, under generated schedules; '
            'after every operation a pool\'s acquired workers must still be locked by it and by nobody else. (c) call_and_wait, run '
            'and as_completed (with failing tasks) must leave no worker acquired when they return or raise.',
            'harness clock for heartbeat staleness; scheduler trusted base as C04; in-process fake transport; (c) runs on real threads '
            'with a 60 s watchdog and reruns before reporting.',
            '§3 C20'),
    'C14': ('exploration',
            'generated remote-evaluation histories (expression trees, remote-object chains, remote iterators/queues, shutdown point, concurrent clients) on an in-process transport; differential against the C17 eager model',
            'A real CourierServer is reached through real CourierClients over the in-process transport. Histories evaluate generated '
            'lazy expression trees, create remote objects and drive attribute/item/method/call chains on them, iterate remote '
            'generators (incl. failing ones), drain RemoteIteratorQueues with get/get_batch, request shutdown at a generated point, '
            'optionally from up to three concurrent client threads. Every answer must equal the value (or exception type and '
            'message) the eager model gives; remote-object state must persist between calls; iteration must yield exactly the '
            'elements in order and end with StopIteration carrying the return value (stable afterwards); after a shutdown request '
            'every answer is the correct value or a retriable TimeoutError; a watchdog catches hangs.',
            'the fake transport models courier\'s observable contract; client and server share one process, so a mutation that '
            'copies the remote object to the client cannot be observed (stated in DESIGN.md); real OS threads with a 60 s watchdog.',
            '§2.3, §3 C14'),
    'C16': ('exploration',
            'generated pipelines/worker counts/shard counts/batch sizes run on real servers, pools and orchestrators over an in-process transport; differential against the in-process run',
            'sharded_pipelines_as_iterator is run on 1..3 real PrefetchedCourierServers through a real WorkerPool with 1..6 shards '
            '(more shards than workers or batches included), iterate_batch_size 1..3, prefetch 1..3, with/without batch output and '
            'threaded shards; run_pipeline_interleaved is run with in-process stages and with a worker pool on the last stage fed '
            'by a master server through a RemoteIteratorQueue (buffer sizes, aggregate_only). Outputs (multiset), the aggregate and '
            'the number of final AggregateResults (exactly one) are compared with the same pipeline in one process; '
            'merge_states(states[:j], strict_states_cnt=n) must raise ValueError for every j < n on both runner kinds (one or two '
            'aggregating stages, list or stream). A generated polling perturbation lets the pool\'s output queue linger after an '
            'empty() that returned True, which opens the window between "queue empty" and "all tasks done".',
            'in-process fake transport (models courier\'s observable contract, not gRPC); real OS threads/asyncio with a 90 s '
            'watchdog and reruns before reporting; exact aggregates.',
            '§2.3, §2.4, §3 C16'),
    'C06': ('fault_enumeration',
            'generated fault plans (per worker, per remote method, per call index: ok / deadline before / deadline after / death / graceful death / restart; application errors; exhausted budgets) injected by an in-process transport into real orchestrators; exactly-once / at-least-once / aggregate-equality oracles',
            'as_completed (1..8 tasks) and sharded_pipelines_as_iterator (generated pipelines, 1..3 prefetching workers, 1..6 shards, '
            'batch/prefetch sizes) run on real servers and pools while the transport applies a generated fault plan to the i-th call '
            'of each method on every worker but one: deadline exceeded before or after the handler ran, abrupt death, graceful '
            'death, restart as a fresh process (generator and object cache lost), presumed dead (reply parked, worker unregistered, '
            'reply delivered after a generated delay or at the very moment the caller gives the worker up). Oracles: each task result exactly once; every '
            'output batch at least once and nothing invented; exactly one final AggregateResult equal to the fault-free in-process '
            'aggregate (every shard state merged exactly once); application errors surface as errors; an exhausted retry budget '
            'raises TimeoutError; no worker stays acquired; a watchdog catches hangs.',
            'the fake transport fails calls to unreachable/dead servers immediately with code 4; one worker is fault-free; real OS '
            'threads with a 120 s watchdog, failures re-run before being reported.',
            '§2.3, §2.4, §3 C06'),
    'C03': ('exploration',
            'generated pipelines x generated execution strategies (thread count + schedule on the deterministic scheduler, stage splits, fusing, named_transforms round trip, shard counts and merge orders, in-process interleaved runner); differential against the sequential single-stage run',
            'The same generated operator program with an exact aggregate is executed (i) with num_threads 1..4 under generated '
            'schedules of the deterministic scheduler, (ii) split at random points into up to four named chained stages, (iii) the '
            'same split chained under one name so that it is fused, (iv) rebuilt from named_transforms(), (v) over k = 1..6 shards '
            '(k > n included) whose states are merged in a generated order with strict_states_cnt, (vi) through '
            'run_pipeline_interleaved in process. Emitted records (as a multiset) and the aggregate must equal the sequential fused '
            'run; the interleaved runner must return exactly one AggregateResult.',
            'scheduler trusted base as C04 for (i); (vi) uses real threads with a 60 s watchdog and reruns before reporting.',
            '§3 C03'),
}

PENDING_REASON = 'check not built yet in this session (work in progress; see DESIGN.md §9 build order) - not claimed until its check exists'


def main():
  props = [json.loads(l) for l in open(os.path.join(HERE, 'properties.jsonl'))]
  checks, na = [], []
  for p in props:
    pid = p['id']
    if pid in CLAIMED:
      cat, tech, text, note, ref = CLAIMED[pid]
      checks.append({
          'property_id': pid,
          'quick_cmd': f'./check {pid} --tier quick',
          'thorough_cmd': f'./check {pid} --tier thorough',
          'evidence_file': f'evidence/{pid}.json',
          'replay_cmd_template': f'./check {pid} --replay {{path}}',
          'engine': 'pbt',
          'level_claimed': {'category': cat, 'text': text, 'design_ref': ref},
          'level_note': note,
          'technique': tech,
      })
    else:
      na.append({'property_id': pid, 'reason': NOT_APPLICABLE.get(pid, PENDING_REASON)})
  m = {
      'version': 1,
      'setup_cmd': './setup.sh',
      'hooks': {
          'guard': 'ML_METRICS_VERIF',
          'enable': 'no source hooks are needed: the harness rebinds module attributes (threading/queue/futures/time) '
                    'of the modules under test and puts an in-process fake `courier` package first on sys.path; '
                    'checks import /repo\'s working tree directly (PYTHONPATH=/repo, editable install)',
          'baseline_off_cmd': 'cd /repo && /venv/bin/python -m pytest -ra -q -p no:cacheprovider --timeout=900 '
                              '--continue-on-collection-errors',
          'source_commits': [],
          'add_only': True,
      },
      'engines': [
          {'name': 'pbt', 'path': 'vlib/runner.py',
           'serves_properties': sorted(CLAIMED),
           'kind_free_text': 'Hypothesis-driven generation of JSON case descriptions (plus exhaustive enumeration of small '
                             'finite scopes), sharded over 16 processes, each case judged by an explicit oracle in '
                             'props/<id>.py; failures shrunk by Hypothesis and written as JSON replay files'},
      ],
      'checks': checks,
      'not_applicable': na,
      'notes': 'Known findings (genuine defects, open or fixed) are listed in known_findings.json; fixed ones are replayed '
               'from regress/<ID>/ on every run. VERIF_SEED selects the Hypothesis seeds; PYTHONHASHSEED is pinned by ./check.',
  }
  if not na:
    m['not_applicable'] = []
  with open(os.path.join(HERE, 'MANIFEST.json'), 'w') as f:
    json.dump(m, f, indent=1)
    f.write('\n')


NOT_APPLICABLE = {}

if __name__ == '__main__':
  main()
  sys.exit(0)
