#!/bin/bash
# tools/run_all.sh [tier] : runs every registered check once (VERIF_SEED honoured), prints one line per property.
cd "$(dirname "$0")/.."
tier="${1:-quick}"; bad=0
for id in $(python3 -c "import json;print(' '.join(c['property_id'] for c in json.load(open('MANIFEST.json'))['checks']))" 2>/dev/null); do
  t0=$(date +%s)
  out=$(./check $id --tier $tier ${EXTRA:-} 2>&1); rc=$?
  t1=$(date +%s)
  line=$(echo "$out" | grep -m1 "tier=$tier")
  echo "rc=$rc $((t1-t0))s $line"
  if [ $rc -ne 0 ]; then bad=1; echo "$out" | grep -E "VIOLATION|HARNESS|WARNING|^\s+\[" | cut -c1-600 | head -6; fi
  echo "$out" | grep -E "^WARNING" | cut -c1-400 | head -3
done
exit $bad
