#!/bin/bash
# tools/try_seed.sh <ID> [dir] : confirm a seeded change (dir/patch.diff + demo.py + meta.json; default /tmp/seed/out/<ID>):
#  1. demo passes on /repo HEAD, fails with the patch; 2. repository tests still pass with the patch; 3. ./check <ID> quick verdict.
id="$1"; dir="${2:-/tmp/seed/out/$id}"
cd "$(dirname "$0")/.."
[ -f "$dir/patch.diff" ] || { echo "no patch in $dir"; exit 2; }
echo "== demo on unchanged tree"; (cd "$dir" && PYTHONPATH=/repo timeout 300 /venv/bin/python demo.py 2>&1 | tail -3); echo "rc=$?"
d=$(mktemp -d /tmp/wt.XXXXXX)
git -C /repo worktree add -q --detach "$d" HEAD || exit 2
if ! git -C "$d" apply "$dir/patch.diff"; then echo "PATCH DOES NOT APPLY"; git -C /repo worktree remove --force "$d"; exit 2; fi
echo "== demo with patch"; (cd "$dir" && PYTHONPATH="$d" timeout 300 /venv/bin/python demo.py 2>&1 | tail -3)
if [ "${SKIP_TESTS:-0}" != 1 ]; then echo "== repository tests with patch"; VERIF_REPO="$d" N=8 tools/baseline.sh; fi
echo "== check $id (quick) with patch"
VERIF_REPO="$d" ./check "$id" --tier quick --no-evidence 2>&1 | grep -E "^VIOLATION|^\s+\[|tier=|HARNESS" | cut -c1-400 | head -8
git -C /repo worktree remove --force "$d"; rm -rf "$d"
