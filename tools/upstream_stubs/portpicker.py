import socket
def pick_unused_port():
    s=socket.socket(); s.bind(('',0)); p=s.getsockname()[1]; s.close(); return p
