#!/usr/bin/env python3
"""tools/keep_seed.py <ID> <verdict> '<what ran / what caught it>' [srcdir] : copies a confirmed seeded change into seeded/<ID>/."""
import json, os, shutil, sys
here = os.path.dirname(os.path.dirname(os.path.abspath(__file__)))
pid, verdict, note = sys.argv[1:4]
src = sys.argv[4] if len(sys.argv) > 4 else f'/tmp/seed/out/{pid}'
name = sys.argv[5] if len(sys.argv) > 5 else pid
dst = os.path.join(here, 'seeded', name)
os.makedirs(dst, exist_ok=True)
for f in ('patch.diff', 'demo.py'):
  shutil.copy(os.path.join(src, f), os.path.join(dst, f))
meta = json.load(open(os.path.join(src, 'meta.json')))
meta.update({'property': pid, 'verdict': verdict, 'confirmed': note})
json.dump(meta, open(os.path.join(dst, 'meta.json'), 'w'), indent=1)
print('kept', dst)
