#!/usr/bin/env python3
"""tools/mkmutant.py <PROP>_<name> <relfile> <old> <new> [count] : writes mutants/<name>.patch (git-apply format) replacing old by new in /repo/<relfile>."""
import difflib, os, sys
here = os.path.dirname(os.path.dirname(os.path.abspath(__file__)))
name, rel, old, new = sys.argv[1:5]
src = open(os.path.join('/repo', rel)).read()
n = src.count(old)
if n != 1:
  sys.exit(f'old string occurs {n} times in {rel}')
dst = src.replace(old, new)
diff = difflib.unified_diff(src.splitlines(True), dst.splitlines(True), f'a/{rel}', f'b/{rel}')
open(os.path.join(here, 'mutants', name + '.patch'), 'w').write(''.join(diff))
print('wrote', name)
