#!/bin/bash
# tools/coverage_report.sh [ID ...] : development aid. Runs the quick checks with line coverage of /repo/ml_metrics switched on and
# prints, per source file, the lines no generated case executed (functions no check enters show up as whole missing blocks).
cd "$(dirname "$0")/.."
d=$(mktemp -d /tmp/verifcov.XXXXXX)
ids="${@:-$(python3 -c "import json;print(' '.join(c['property_id'] for c in json.load(open('MANIFEST.json'))['checks']))" 2>/dev/null)}"
for id in $ids; do VERIF_COV=$d ./check $id --tier quick --no-evidence --scale ${SCALE:-0.3} >/dev/null 2>&1; echo "ran $id"; done
cd $d && /venv/bin/python -m coverage combine -q --data-file=$d/.coverage $d/cov.* >/dev/null 2>&1
/venv/bin/python -m coverage report --data-file=$d/.coverage -m --include='/repo/ml_metrics/_src/*' --omit='*_test.py' 2>/dev/null | cut -c1-400
rm -rf $d
