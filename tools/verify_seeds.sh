#!/bin/bash
# tools/verify_seeds.sh [pattern] : for every seeded/<name>/ (patch_rebased.diff if present, else patch.diff) apply the change to a
# scratch worktree of /repo HEAD and run the quick check(s) named in meta.json ("caught_by", default: the property) against it.
# Prints CAUGHT / MISSED / SKIPPED(base) per change; exit 1 if any applicable change is missed.
cd "$(dirname "$0")/.."
pat="${1:-}"
fail=0
for d in seeded/*${pat}*/; do
  name=$(basename "$d")
  [ -f "$d/meta.json" ] || continue
  patch="$d/patch.diff"; [ -f "$d/patch_rebased.diff" ] && patch="$d/patch_rebased.diff"
  props=$(/venv/bin/python -c "import json,sys; m=json.load(open('$d/meta.json')); print(' '.join(m.get('caught_by') or [m['property']]))")
  skip=$(/venv/bin/python -c "import json; print(json.load(open('$d/meta.json')).get('skip_on_head',''))")
  if [ -n "$skip" ]; then echo "SKIPPED $name  $(echo "$skip" | cut -c1-160)"; continue; fi
  if ! git -C /repo apply --check "$PWD/$patch" 2>/dev/null; then
    base=$(/venv/bin/python -c "import json; print(json.load(open('$d/meta.json')).get('base','?'))")
    echo "SKIPPED $name  does not apply to HEAD (base: $base)"; continue
  fi
  verdict=MISSED; how=""
  for p in $props; do
    out=$(tools/at_commit.sh HEAD "$PWD/$patch" ./check "$p" --tier quick --no-evidence 2>&1); rc=$?
    if [ $rc -eq 1 ] && echo "$out" | grep -q "^VIOLATION property=$p"; then
      verdict=CAUGHT; how="$p: $(echo "$out" | grep -m1 -E '^\s+\[' | cut -c1-110)"; break
    fi
    how="$p rc=$rc $(echo "$out" | tail -1 | cut -c1-100)"
  done
  echo "$verdict $name  $how"
  [ "$verdict" = MISSED ] && fail=1
done
exit $fail
