#!/usr/bin/env python3
"""tools/seed_readme.py : regenerates seeded/README.md from the meta.json files (run after tools/verify_seeds.sh)."""
import json, os
here = os.path.dirname(os.path.dirname(os.path.abspath(__file__)))
rows = []
for name in sorted(os.listdir(os.path.join(here, 'seeded'))):
  mp = os.path.join(here, 'seeded', name, 'meta.json')
  if not os.path.exists(mp):
    continue
  m = json.load(open(mp))
  c = lambda t, n: ' '.join(str(t).split())[:n].replace('|', '/')
  rows.append(f"| {name} | {m['property']} | {c(m.get('summary', ''), 260)} | {c(m.get('needs', ''), 220)} | {m.get('verdict', '?')} | {c(m.get('confirmed', ''), 420)} |")
verd = [json.load(open(os.path.join(here, 'seeded', n, 'meta.json'))).get('verdict', '') for n in os.listdir(os.path.join(here, 'seeded'))
        if os.path.exists(os.path.join(here, 'seeded', n, 'meta.json'))]
head = f"""# Independently written breaking changes

Each directory holds a change to google/ml-metrics written by a sub-agent that saw only the text of one property and a scratch
worktree of /repo (nothing from /verif): `patch.diff`, `demo.py` (passes on the unchanged tree, fails with the patch) and
`meta.json` (what it needs to manifest, what was run, verdict). `<ID>` = first wave (one change per property), `<ID>-2a` / `<ID>-2b`
= second wave (two changes per property, asked to stay away from the most central site; prompt in `WAVE2_PROMPT.txt`). Every change
was confirmed here: the demo passes on /repo HEAD and fails with the patch, the pinned test suite still reports 657 passed with the
patch, and the property's **quick** check was run against a scratch worktree with the patch applied. None of these patches is ever
committed to /repo. `tools/verify_seeds.sh` re-applies every change to a scratch worktree of the current HEAD and re-runs the quick
check(s) (`caught_by` in meta.json, default: the property's own check); changes whose lines were rewritten or whose mechanism was
removed by a later `fix:` commit carry `skip_on_head` with the reason.

{len(verd)} changes: {sum(v == 'caught' for v in verd)} caught by the checks as they were, {sum(v.startswith('missed at first') for v in verd)}
missed at first and caught after the check was strengthened, {sum('caught by' in v and not v.startswith('missed at first') for v in verd)} caught by another property's check,
{sum(v.startswith('exposed') for v in verd)} exposed a defect of the unchanged tree.

| dir | property | change | needs | verdict | how it was confirmed / caught |
|---|---|---|---|---|---|
"""
open(os.path.join(here, 'seeded', 'README.md'), 'w').write(head + '\n'.join(rows) + '\n')
print('rows', len(rows))
