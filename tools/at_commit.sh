#!/bin/bash
# tools/at_commit.sh <commit-ish> [patch.diff|-] <cmd...> : run a command against a scratch worktree of /repo (VERIF_REPO), then remove it.
c="$1"; patch="$2"; shift 2
d=$(mktemp -d /tmp/wt.XXXXXX)
git -C /repo worktree add -q --detach "$d" "$c" || exit 2
if [ "$patch" != "-" ]; then git -C "$d" apply "$patch" || { git -C /repo worktree remove --force "$d"; exit 2; }; fi
VERIF_REPO="$d" "$@"; rc=$?
git -C /repo worktree remove --force "$d"; rm -rf "$d"
exit $rc
