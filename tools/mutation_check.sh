#!/bin/bash
# tools/mutation_check.sh [pattern] : for each mutants/<PROP>_*.patch, apply to a scratch worktree of /repo HEAD and run the
# property's quick check against it; the check must report a VIOLATION (exit 1). Prints a table.
cd "$(dirname "$0")/.."
pat="${1:-}"
fail=0
for p in mutants/*${pat}*.patch; do
  prop=$(basename "$p" | cut -d_ -f1)
  out=$(tools/at_commit.sh HEAD "$PWD/$p" ./check "$prop" --tier quick --no-evidence 2>&1); rc=$?
  if [ $rc -eq 1 ] && echo "$out" | grep -q "^VIOLATION property=$prop"; then
    echo "CAUGHT  $(basename $p)  $(echo "$out" | grep -m1 -E '^\s+\[' | cut -c1-140)"
  else
    echo "MISSED  $(basename $p)  rc=$rc $(echo "$out" | tail -2 | tr '\n' ' ' | cut -c1-200)"; fail=1
  fi
done
exit $fail
