#!/usr/bin/env python3
"""python3-vt tools/validate.py : validates MANIFEST.json and evidence/*.json against the schemas."""
import json, glob, sys, os
import jsonschema
here = os.path.dirname(os.path.dirname(os.path.abspath(__file__)))
ok = True
def v(path, schema):
  global ok
  try:
    jsonschema.validate(json.load(open(path)), json.load(open(schema)))
    print('valid  ', os.path.relpath(path, here))
  except Exception as e:
    ok = False
    print('INVALID', path, str(e)[:400])
v(os.path.join(here, 'MANIFEST.json'), '/root/.vp/MANIFEST.schema.json')
for p in sorted(glob.glob(os.path.join(here, 'evidence', '*.json'))):
  v(p, '/root/.vp/EVIDENCE.schema.json')
sys.exit(0 if ok else 1)
