#!/bin/bash
# tools/upstream_courier_tests.sh [commit-ish] : dev aid, not a registered check. The five upstream test modules that cannot be
# collected in this sandbox (no `courier` package) are run against the in-process transport of vlib/fake_courier, at the given
# commit (default HEAD) in a scratch worktree. Used to see that `fix:` commits do not contradict upstream tests the pinned
# suite cannot run: the set of failing tests at HEAD must equal the set at the original snapshot (those depend on the real
# transport: timeouts, str() of a server).
here="$(cd "$(dirname "$0")/.." && pwd)"
c="${1:-HEAD}"
fc=$(mktemp -d /tmp/fc.XXXXXX)
cp -r "$here/vlib/fake_courier/courier" "$fc/courier"
mkdir -p "$fc/courier/python"; : > "$fc/courier/python/__init__.py"
cp "$here/tools/upstream_stubs/courier_python/testutil.py" "$fc/courier/python/testutil.py"
cp "$here/tools/upstream_stubs/portpicker.py" "$fc/portpicker.py"
d=$(mktemp -d /tmp/wt.XXXXXX)
git -C /repo worktree add -q --detach "$d" "$c" || exit 2
(cd "$d" && PYTHONPATH="$fc:$d" timeout 1500 /venv/bin/python -m pytest -q -p no:cacheprovider --timeout=120 \
  ml_metrics/_src/utils/iter_utils_test.py ml_metrics/_src/utils/courier_utils_test.py \
  ml_metrics/_src/chainables/courier_server_test.py ml_metrics/_src/chainables/courier_worker_test.py \
  ml_metrics/_src/chainables/orchestrate_test.py 2>&1 | grep -E "^FAILED|^ERROR|passed|failed")
git -C /repo worktree remove --force "$d"; rm -rf "$d" "$fc"
