"""Metric registry shared by C01 / C07 / C11: for every shipped mergeable metric, how to configure it,
generate rows, build batches, drive both APIs, normalise and compare results, and the reference value."""
from __future__ import annotations

import collections
import math
import operator

from hypothesis import strategies as st
import numpy as np

from vlib.oracles import metrics_ref as ref

NAN = float('nan')
GRID = [0.0, 0.5, 1.0, 1.5, 2.5, -3.0, 7.0, 0.25, -0.75, 100.0]
PROBS = [0.0, 0.125, 0.25, 0.375, 0.5, 0.625, 0.75, 0.875, 1.0]
WORDS = ['a', 'b', 'c', 'Dog', 'cat!', 'x-y', 'the', 'B']
IDS = ['a', 'b', 'c', 'd', 'e', 'f']


def f(x):
  return NAN if x is None else float(x)


# ------------------------------------------------------------------------------------------------ comparison
def close(a, b, rtol=1e-9, atol=1e-9):
  if isinstance(a, (np.generic,)):
    a = a.item()
  if isinstance(b, (np.generic,)):
    b = b.item()
  if isinstance(a, np.ndarray):
    a = a.tolist()
  if isinstance(b, np.ndarray):
    b = b.tolist()
  if isinstance(a, dict) and isinstance(b, dict):
    return set(a) == set(b) and all(close(a[k], b[k], rtol, atol) for k in a)
  if isinstance(a, (list, tuple)) and isinstance(b, (list, tuple)):
    return len(a) == len(b) and all(close(x, y, rtol, atol) for x, y in zip(a, b))
  if isinstance(a, (list, tuple)) or isinstance(b, (list, tuple)) or isinstance(a, dict) or isinstance(b, dict):
    return False
  if isinstance(a, (int, float)) and isinstance(b, (int, float)) and not isinstance(a, bool):
    if a != a or b != b:
      return a != a and b != b
    if math.isinf(a) or math.isinf(b):
      return a == b
    return abs(a - b) <= atol + rtol * max(abs(a), abs(b))
  return a == b


def tolist(x):
  if isinstance(x, np.ndarray):
    return x.tolist()
  if isinstance(x, np.generic):
    return x.item()
  if isinstance(x, (list, tuple)):
    return [tolist(v) for v in x]
  return x


def all_nan(x):
  x = tolist(x)
  if isinstance(x, list):
    return all(all_nan(v) for v in x)
  return isinstance(x, float) and x != x


# ------------------------------------------------------------------------------------------------ entries
class Entry:
  name = ''
  apis = ('metric', 'agg')
  compare = 'float'            # float | exact | order | sampler
  min_batch = 1                # smallest allowed batch (0 = empty batches allowed)
  per_row = False
  order_carrying = False

  def cfg(self):
    return st.just({})

  def row(self, cfg):
    raise NotImplementedError

  def make(self, cfg):
    raise NotImplementedError

  def agg(self, cfg):
    return self.make(cfg).as_agg_fn()

  def args(self, cfg, rows):
    raise NotImplementedError

  def norm(self, cfg, result):
    return tolist(result)

  def ref(self, cfg, rows):
    raise NotImplementedError

  def equal(self, cfg, a, b):
    return close(a, b)

  def nontrivial_row(self, cfg, rows):
    return False


class _MeanFamily(Entry):
  cls_name = 'Mean'
  min_batch = 0

  def cfg(self):
    # offset: every value is shifted by 2**24 (exactly representable): data whose mean is huge compared with its spread
    return st.builds(lambda nd, d, off: {'ndim': nd, 'd': d, 'offset': off}, st.sampled_from([1, 1, 2]), st.integers(1, 3),
                     st.sampled_from([0, 0, 0, 0, 2**24]))

  def row(self, cfg):
    v = st.one_of(st.sampled_from(GRID), st.sampled_from(GRID), st.none())
    return v if cfg['ndim'] == 1 else st.lists(v, min_size=cfg['d'], max_size=cfg['d'])

  def _f(self, cfg, x):
    return NAN if x is None else float(x) + cfg.get('offset', 0)

  def make(self, cfg):
    from ml_metrics._src.aggregates import rolling_stats  # pylint: disable=g-import-not-at-top
    return getattr(rolling_stats, self.cls_name)()

  def args(self, cfg, rows):
    g = lambda x: self._f(cfg, x)
    if cfg['ndim'] == 1:
      return (np.array([g(r) for r in rows], dtype=float),)
    return (np.array([[g(v) for v in r] for r in rows], dtype=float).reshape(len(rows), cfg['d']),)

  def _ref(self, cfg, rows):
    # the reference works on the unshifted grid values (exact) and shifts mean and total afterwards; the variance is
    # translation invariant
    if cfg['ndim'] == 1:
      s = ref.stats([f(r) for r in rows], 1)
    else:
      s = ref.stats([[f(v) for v in r] for r in rows], 2)
    off = cfg.get('offset', 0)
    if off:
      s = dict(s)
      if isinstance(s['mean'], list):
        s['mean'] = [m + off for m in s['mean']]
        s['total'] = [t + off * c for t, c in zip(s['total'], s['count'])]
      else:
        s['mean'] = s['mean'] + off
        s['total'] = s['total'] + off * s['count']
    return s

  def equal(self, cfg, a, b):
    # a never-updated accumulator reports a scalar NaN where a 2-D one reports a vector of NaNs
    if isinstance(a, dict) and isinstance(b, dict):
      return set(a) == set(b) and all(self.equal(cfg, a[k], b[k]) for k in a)
    if all_nan(a) and all_nan(b):
      return True
    if isinstance(a, list) != isinstance(b, list):
      # count/total of an untouched accumulator is the scalar 0
      x, y = (a, b) if isinstance(a, list) else (b, a)
      return all(close(v, y) for v in x) and (y == 0)
    if cfg.get('offset'):
      # shifted data: a stable update loses about eps * |mean| * spread (1e-8 here), an unstable one eps * mean**2 (0.06)
      return close(a, b, rtol=1e-9, atol=1e-5)
    return close(a, b)

  def nontrivial_row(self, cfg, rows):
    return any(r is None or (isinstance(r, list) and None in r) for r in rows)


class MeanE(_MeanFamily):
  name = 'Mean'
  cls_name = 'Mean'

  def ref(self, cfg, rows):
    return self._ref(cfg, rows)['mean']


class MeanVarE(_MeanFamily):
  name = 'MeanAndVariance'
  cls_name = 'MeanAndVariance'

  def norm(self, cfg, r):
    return {'mean': tolist(r.mean), 'var': tolist(r.var), 'count': tolist(r.count), 'total': tolist(r.total),
            'stddev': tolist(r.stddev)}

  def ref(self, cfg, rows):
    s = self._ref(cfg, rows)
    sd = [math.sqrt(v) if v == v else NAN for v in s['var']] if isinstance(s['var'], list) else (
        math.sqrt(s['var']) if s['var'] == s['var'] else NAN)
    return dict(s, stddev=sd)


class VarE(_MeanFamily):
  name = 'Var'
  cls_name = 'Var'

  def ref(self, cfg, rows):
    return self._ref(cfg, rows)['var']


class MinMaxE(Entry):
  name = 'MinMaxAndCount'

  def row(self, cfg):
    # a missing value (NaN) propagates into min and max, through add and through merge alike
    return st.one_of(st.integers(0, 9), st.integers(0, 9), st.integers(0, 9), st.just(float('nan')))

  def make(self, cfg):
    from ml_metrics._src.aggregates import rolling_stats  # pylint: disable=g-import-not-at-top
    return rolling_stats.MinMaxAndCount()

  def args(self, cfg, rows):
    if any(r != r for r in rows):
      return (np.array(rows, dtype=float),)
    return (np.array(rows, dtype=np.int64),)

  def norm(self, cfg, r):
    return {'count': tolist(r.count), 'min': float(r.min), 'max': float(r.max)}

  def nontrivial_row(self, cfg, rows):
    return any(r != r for r in rows) and any(r == r for r in rows)

  def ref(self, cfg, rows):
    if any(r != r for r in rows):
      return {'count': len(rows), 'min': float('nan'), 'max': float('nan')}
    return {'count': len(rows), 'min': float(min(rows)), 'max': float(max(rows))}


class HistogramE(Entry):
  name = 'Histogram'
  min_batch = 0

  def cfg(self):
    @st.composite
    def s(draw):
      weights = draw(st.booleans())
      if draw(st.booleans()):
        lo = draw(st.sampled_from([-1.0, 0.0, 0.5]))
        hi = lo + draw(st.sampled_from([0.5, 1.0, 2.0]))
        return {'bins': draw(st.sampled_from([1, 2, 4, 8])), 'range': [lo, hi], 'weights': weights}
      edges = sorted(draw(st.lists(st.sampled_from([-1.0, -0.5, 0.0, 0.25, 0.5, 1.0, 1.5, 2.0]), min_size=2,
                                   max_size=5, unique=True)))
      return {'edges': edges, 'weights': weights}
    return s()

  def row(self, cfg):
    v = st.integers(-10, 22).map(lambda i: i * 0.125)
    # weights: whole numbers and fractions (a weighted histogram holds sums of weights, not counts)
    return st.tuples(v, st.sampled_from([0, 1, 2, 3, 0.5, 1.25, 2.75])).map(list) if cfg['weights'] else v

  def _edges(self, cfg):
    if 'edges' in cfg:
      return list(cfg['edges'])
    lo, hi = cfg['range']
    return [lo + i * (hi - lo) / cfg['bins'] for i in range(cfg['bins'] + 1)]

  def make(self, cfg):
    from ml_metrics._src.aggregates import rolling_stats  # pylint: disable=g-import-not-at-top
    if 'edges' in cfg:
      return rolling_stats.Histogram(bins=list(cfg['edges']))
    return rolling_stats.Histogram(range=tuple(cfg['range']), bins=cfg['bins'])

  def args(self, cfg, rows):
    if cfg['weights']:
      return (np.array([r[0] for r in rows], dtype=float), np.array([r[1] for r in rows], dtype=float))
    return (np.array(rows, dtype=float),)

  def norm(self, cfg, r):
    return {'hist': tolist(r.hist), 'bin_edges': tolist(r.bin_edges)}

  def ref(self, cfg, rows):
    e = self._edges(cfg)
    if cfg['weights']:
      h = ref.histogram([r[0] for r in rows], e, [r[1] for r in rows])
    else:
      h = ref.histogram(rows, e)
    return {'hist': h, 'bin_edges': e}


class CounterE(Entry):
  name = 'Counter'
  compare = 'exact'
  min_batch = 0

  def row(self, cfg):
    return st.one_of(st.integers(0, 4), st.sampled_from(['x', 'y', 'zz']))

  def make(self, cfg):
    from ml_metrics._src.aggregates import rolling_stats  # pylint: disable=g-import-not-at-top
    return rolling_stats.Counter()

  def args(self, cfg, rows):
    return (list(rows),)

  def norm(self, cfg, r):
    return sorted([repr(k), int(v)] for k, v in r.items())

  def ref(self, cfg, rows):
    return sorted([repr(k), v] for k, v in collections.Counter(rows).items())


class UnboundedSamplerE(Entry):
  name = 'UnboundedSampler'
  compare = 'order'
  order_carrying = True

  def cfg(self):
    return st.integers(1, 3).map(lambda n: {'ncols': n})

  def row(self, cfg):
    return st.lists(st.integers(0, 99), min_size=cfg['ncols'], max_size=cfg['ncols'])

  def make(self, cfg):
    from ml_metrics._src.aggregates import rolling_stats  # pylint: disable=g-import-not-at-top
    return rolling_stats.UnboundedSampler()

  def args(self, cfg, rows):
    return tuple([r[j] for r in rows] for j in range(cfg['ncols']))

  def norm(self, cfg, r):
    return [tolist(r)] if cfg['ncols'] == 1 else tolist(r)

  def ref(self, cfg, rows):
    return [[r[j] for r in rows] for j in range(cfg['ncols'])]


class ValueAccumulatorE(Entry):
  name = 'ValueAccumulator'
  compare = 'order'
  order_carrying = True

  def cfg(self):
    return st.builds(lambda n, c: {'ncols': n, 'concat': c}, st.integers(1, 2), st.booleans())

  def row(self, cfg):
    return st.lists(st.integers(0, 99), min_size=cfg['ncols'], max_size=cfg['ncols'])

  def make(self, cfg):
    from ml_metrics._src.aggregates import rolling_stats  # pylint: disable=g-import-not-at-top
    return rolling_stats.ValueAccumulator(operator.add if cfg['concat'] else None)

  def args(self, cfg, rows):
    return tuple([r[j] for r in rows] for j in range(cfg['ncols']))

  def norm(self, cfg, r):
    cols = [r] if cfg['ncols'] == 1 else list(r)
    if not cfg['concat']:
      cols = [[x for batch in c for x in batch] for c in cols]   # list of batches -> rows
    return tolist(cols)

  def ref(self, cfg, rows):
    return [[r[j] for r in rows] for j in range(cfg['ncols'])]


class FixedSizeSampleE(Entry):
  name = 'FixedSizeSample'
  compare = 'sampler'

  def cfg(self):
    return st.builds(lambda m, s: {'max_size': m, 'seed': s}, st.integers(1, 5), st.integers(0, 3))

  def row(self, cfg):
    return st.integers(0, 6)

  def make(self, cfg):
    from ml_metrics._src.aggregates import rolling_stats  # pylint: disable=g-import-not-at-top
    return rolling_stats.FixedSizeSample(cfg['max_size'], seed=cfg['seed'])

  def args(self, cfg, rows):
    return (list(rows),)

  def norm(self, cfg, r):
    return tolist(r)

  def ref(self, cfg, rows):
    return None

  def sampler_ok(self, cfg, metric_or_state, rows):
    """size, membership (with multiplicity) and reviewed-count."""
    res = list(metric_or_state.result())
    want = min(cfg['max_size'], len(rows))
    if len(res) != want:
      return f'sample has {len(res)} elements, want min(max_size={cfg["max_size"]}, n={len(rows)}) = {want}: {res}'
    c, d = collections.Counter(res), collections.Counter(rows)
    if any(c[k] > d[k] for k in c):
      return f'sample {res} is not a sub-multiset of the data {rows}'
    if metric_or_state.num_samples_reviewed != len(rows):
      return f'num_samples_reviewed = {metric_or_state.num_samples_reviewed}, want {len(rows)}'
    return None


class _R2E(Entry):
  relative = False

  def row(self, cfg):
    return st.tuples(st.integers(0, 1), st.sampled_from(PROBS)).map(list)

  def make(self, cfg):
    from ml_metrics._src.aggregates import rolling_stats  # pylint: disable=g-import-not-at-top
    return (rolling_stats.R2TjurRelative if self.relative else rolling_stats.R2Tjur)()

  def args(self, cfg, rows):
    return (np.array([r[0] for r in rows]), np.array([r[1] for r in rows], dtype=float))

  def ref(self, cfg, rows):
    return ref.r2tjur([(r[0], r[1]) for r in rows], self.relative)

  def nontrivial_row(self, cfg, rows):
    return len({r[0] for r in rows}) == 2


class R2TjurE(_R2E):
  name = 'R2Tjur'


class R2TjurRelE(_R2E):
  name = 'R2TjurRelative'
  relative = True


class RRegressionE(Entry):
  name = 'RRegression'
  VALS = [-3.0, -1.0, 0.0, 0.5, 1.0, 2.0, 4.0]

  def cfg(self):
    return st.builds(lambda c, d: {'center': c, 'd': d}, st.booleans(), st.sampled_from([0, 0, 1, 2]))

  def row(self, cfg):
    v = st.sampled_from(self.VALS)
    x = v if cfg['d'] == 0 else st.lists(v, min_size=cfg['d'], max_size=cfg['d'])
    return st.tuples(x, v).map(list)

  def make(self, cfg):
    from ml_metrics._src.aggregates import rolling_stats  # pylint: disable=g-import-not-at-top
    return rolling_stats.RRegression(cfg['center'])

  def args(self, cfg, rows):
    x = np.array([r[0] for r in rows], dtype=float)
    if cfg['d']:
      x = x.reshape(len(rows), cfg['d'])
    return (x, np.array([r[1] for r in rows], dtype=float))

  def ref(self, cfg, rows):
    ys = [r[1] for r in rows]
    if cfg['d'] == 0:
      v, ok = ref.pearson([r[0] for r in rows], ys, cfg['center'])
      return v if ok else 'ILL'
    out = []
    for j in range(cfg['d']):
      v, ok = ref.pearson([r[0][j] for r in rows], ys, cfg['center'])
      out.append(v if ok else 'ILL')
    return out

  def equal(self, cfg, a, b):
    # ill-conditioned columns (zero variance) are numerically undefined: not compared
    if isinstance(a, list) and isinstance(b, list):
      return len(a) == len(b) and all(self.equal(cfg, x, y) for x, y in zip(a, b))
    if a == 'ILL' or b == 'ILL':
      return True
    return close(a, b, rtol=1e-7, atol=1e-9)

  def well_conditioned(self, cfg, rows):
    r = self.ref(cfg, rows)
    return 'ILL' not in (r if isinstance(r, list) else [r])


class SymPredDiffE(Entry):
  name = 'SymmetricPredictionDifference'

  def row(self, cfg):
    v = st.sampled_from(GRID)
    return st.tuples(v, v).map(list)

  def make(self, cfg):
    from ml_metrics._src.aggregates import rolling_stats  # pylint: disable=g-import-not-at-top
    return rolling_stats.SymmetricPredictionDifference()

  def args(self, cfg, rows):
    return (np.array([r[0] for r in rows], dtype=float), np.array([r[1] for r in rows], dtype=float))

  def ref(self, cfg, rows):
    return ref.sym_pred_diff([(r[0], r[1]) for r in rows])


class MeanStateE(Entry):
  name = 'MeanState'
  apis = ('metric',)
  min_batch = 0

  def cfg(self):
    return st.sampled_from([0, 0, 2, 3]).map(lambda d: {'d': d})

  def row(self, cfg):
    v = st.integers(-5, 9)
    return v if not cfg['d'] else st.lists(v, min_size=cfg['d'], max_size=cfg['d'])

  def make(self, cfg):
    from ml_metrics._src.aggregates import utils  # pylint: disable=g-import-not-at-top
    return utils.MeanState()

  def args(self, cfg, rows):
    if not cfg['d']:
      return (list(rows),)
    return (np.array(rows, dtype=np.int64).reshape(len(rows), cfg['d']),)

  def ref(self, cfg, rows):
    if not cfg['d']:
      return ref.sdiv(sum(rows), len(rows))
    return [ref.sdiv(sum(r[j] for r in rows), len(rows)) for j in range(cfg['d'])]

  def equal(self, cfg, a, b):
    if isinstance(a, list) != isinstance(b, list):   # untouched accumulator reports the scalar 0.0
      x, y = (a, b) if isinstance(a, list) else (b, a)
      return y == 0 and all(v == 0 for v in x)
    return close(a, b)


class TupleMeanStateE(Entry):
  name = 'TupleMeanState'
  apis = ('metric',)

  def cfg(self):
    return st.integers(1, 3).map(lambda n: {'ncols': n})

  def row(self, cfg):
    return st.lists(st.integers(-5, 9), min_size=cfg['ncols'], max_size=cfg['ncols'])

  def make(self, cfg):
    from ml_metrics._src.aggregates import utils  # pylint: disable=g-import-not-at-top
    return utils.TupleMeanState()

  def args(self, cfg, rows):
    return tuple([r[j] for r in rows] for j in range(cfg['ncols']))

  def ref(self, cfg, rows):
    return [ref.sdiv(sum(r[j] for r in rows), len(rows)) for j in range(cfg['ncols'])]


class _TextE(Entry):
  min_batch = 0

  def row(self, cfg):
    return st.lists(st.sampled_from(WORDS), min_size=0, max_size=5).map(' '.join)

  def args(self, cfg, rows):
    return (list(rows),)

  def norm(self, cfg, r):
    return [[k, float(v)] for k, v in r]


class TopKWordNGramsE(_TextE):
  name = 'TopKWordNGrams'

  def cfg(self):
    return st.builds(lambda k, n, u, c: {'k': k, 'n': n, 'first': u, 'dup': c}, st.integers(1, 5), st.integers(1, 3),
                     st.booleans(), st.booleans())

  def make(self, cfg):
    from ml_metrics._src.aggregates import text  # pylint: disable=g-import-not-at-top
    return text.TopKWordNGrams(k=cfg['k'], n=cfg['n'], use_first_ngram_only=cfg['first'], count_duplicate=cfg['dup'])

  def ref(self, cfg, rows):
    return [[k, v] for k, v in ref.word_ngrams(rows, cfg['k'], cfg['n'], cfg['first'], cfg['dup'])]


class PatternFrequencyE(_TextE):
  name = 'PatternFrequency'

  def cfg(self):
    return st.builds(lambda p, c: {'patterns': p, 'dup': c},
                     st.lists(st.sampled_from(['a', 'a b', 'c', 'aa', ' ', 'Dog', 'b c']), min_size=1, max_size=3,
                              unique=True), st.booleans())

  def row(self, cfg):
    return st.lists(st.sampled_from(['a', 'b', 'c', 'Dog', 'aa', 'aaa']), min_size=0, max_size=5).map(' '.join)

  def make(self, cfg):
    from ml_metrics._src.aggregates import text  # pylint: disable=g-import-not-at-top
    return text.PatternFrequency(patterns=list(cfg['patterns']), count_duplicate=cfg['dup'])

  def ref(self, cfg, rows):
    return [[k, v] for k, v in ref.pattern_frequency(rows, cfg['patterns'], cfg['dup'])]


CM_METRICS = [
    'precision', 'ppv', 'recall', 'f1_score', 'binary_accuracy', 'sensitivity', 'tpr', 'specificity', 'tnr',
    'fall_out', 'fpr', 'miss_rate', 'fnr', 'negative_prediction_value', 'nvp', 'false_discovery_rate',
    'false_omission_rate', 'threat_score', 'positive_likelihood_ratio', 'negative_likelihood_ratio',
    'diagnostic_odds_ratio', 'positive_predictive_value', 'intersection_over_union', 'prevalence',
    'prevalence_threshold', 'matthews_correlation_coefficient', 'informedness', 'markedness', 'balanced_accuracy']
VOCAB = ['y', 'n', 'u', 'w']


def _label_sets(cfg, rows):
  """(true_sets, pred_sets, classes, pos_class) for the reference, from raw rows."""
  it = cfg['input_type']
  if it == 'binary':
    pos = cfg['pos_label']
    ts = [{'P'} if r[0] == pos else {'N'} for r in rows]
    ps = [{'P'} if r[1] == pos else {'N'} for r in rows]
    return ts, ps, ['P', 'N'], 'P'
  if it == 'multiclass':
    classes = cfg.get('vocab') or sorted({x for r in rows for x in r})
    return [{r[0]} for r in rows], [{r[1]} for r in rows], classes, None
  if it == 'multiclass-multioutput':
    classes = cfg.get('vocab') or sorted({x for r in rows for c in r for x in c})
    return [set(r[0]) for r in rows], [set(r[1]) for r in rows], classes, None
  if it == 'multiclass-indicator':
    c = cfg['nclass']
    ts = [{j for j in range(c) if r[0][j] == 1} for r in rows]
    ps = [{j for j in range(c) if r[1][j] == 1} for r in rows]
    return ts, ps, list(range(c)), 0
  raise KeyError(it)


def _cm_rows(cfg):
  it = cfg['input_type']
  if it == 'binary':
    lab = st.sampled_from(cfg['labels'])
    return st.tuples(lab, lab).map(list)
  if it == 'multiclass':
    lab = st.sampled_from(cfg['vocab'] or VOCAB[:3])
    return st.tuples(lab, lab).map(list)
  if it == 'multiclass-multioutput':
    labs = st.lists(st.sampled_from(cfg['vocab'] or VOCAB[:3]), min_size=1, max_size=3, unique=True)
    return st.tuples(labs, labs).map(list)
  c = cfg['nclass']
  hot = st.lists(st.integers(0, 1), min_size=c, max_size=c)
  return st.tuples(hot, hot).map(list)


def _cm_args(cfg, rows):
  it = cfg['input_type']
  if it in ('binary', 'multiclass'):
    return ([r[0] for r in rows], [r[1] for r in rows])
  if it == 'multiclass-multioutput':
    return ([list(r[0]) for r in rows], [list(r[1]) for r in rows])
  c = cfg['nclass']
  return (np.array([r[0] for r in rows]).reshape(len(rows), c), np.array([r[1] for r in rows]).reshape(len(rows), c))


@st.composite
def _cm_cfg(draw, need_vocab, topk=False, samplewise=False):
  types = ['multiclass', 'multiclass-multioutput'] if topk else (
      ['multiclass', 'multiclass-multioutput', 'multiclass-indicator'] if samplewise else
      ['binary', 'multiclass', 'multiclass-multioutput', 'multiclass-indicator'])
  it = draw(st.sampled_from(types))
  cfg = {'input_type': it}
  metrics = draw(st.lists(st.sampled_from(CM_METRICS + (['accuracy'] if samplewise else [])), min_size=1, max_size=4,
                          unique=True))
  cfg['metrics'] = metrics if draw(st.booleans()) or len(metrics) > 1 else metrics[0]
  if it == 'multiclass-indicator':
    cfg['nclass'] = draw(st.integers(2, 4))
    cfg['pos_label'] = 1
  if samplewise:
    cfg['average'] = 'samples'
  elif it == 'binary':
    cfg['average'] = draw(st.sampled_from(['binary', 'micro', 'macro']))
    cfg['labels'] = draw(st.sampled_from([[1, 0], [0, 1], ['yes', 'no'], [True, False], [5, -5]]))
    cfg['pos_label'] = cfg['labels'][0]
  elif it == 'multiclass-indicator':
    avgs = ['micro', 'macro'] + (['binary'] if cfg['nclass'] == 2 else [])
    cfg['average'] = draw(st.sampled_from(avgs))
  else:
    cfg['average'] = draw(st.sampled_from(['micro', 'macro']))
  if it in ('multiclass', 'multiclass-multioutput'):
    nv = draw(st.integers(2, 4))
    give = need_vocab or cfg['average'] == 'macro' or draw(st.booleans())
    cfg['vocab'] = VOCAB[:nv] if give else None
  if need_vocab and cfg['average'] == 'macro' and it == 'binary':
    cfg['vocab'] = list(cfg['labels'])       # ignored by the computation, satisfies the merge_states vocab check
  if need_vocab and cfg['average'] == 'macro' and it == 'multiclass-indicator':
    cfg['vocab'] = list(range(cfg['nclass']))
  if topk:
    cfg['k_list'] = sorted(draw(st.lists(st.integers(1, 4), min_size=1, max_size=3, unique=True)))
  return cfg


class ConfusionMatrixE(Entry):
  name = 'ConfusionMatrixAggFn'
  apis = ('agg',)
  need_vocab = False

  def cfg(self):
    return _cm_cfg(self.need_vocab)

  def row(self, cfg):
    return _cm_rows(cfg)

  def agg(self, cfg):
    from ml_metrics._src.aggregates import classification  # pylint: disable=g-import-not-at-top
    kw = {}
    if cfg.get('vocab'):
      kw['vocab'] = {k: i for i, k in enumerate(cfg['vocab'])}
    return classification.ConfusionMatrixAggFn(metrics=cfg['metrics'], input_type=cfg['input_type'],
                                               average=cfg['average'], pos_label=cfg.get('pos_label', 1), **kw)

  def args(self, cfg, rows):
    return _cm_args(cfg, rows)

  def norm(self, cfg, r):
    if isinstance(cfg['metrics'], str):
      return {cfg['metrics']: tolist(r)}
    return {str(k.value if hasattr(k, 'value') else k): tolist(v) for k, v in r.items()}

  def ref(self, cfg, rows):
    ts, ps, classes, pos = _label_sets(cfg, rows)
    ms = [cfg['metrics']] if isinstance(cfg['metrics'], str) else cfg['metrics']
    return {m: ref.confusion_metric(m, cfg['average'], ts, ps, classes, pos) for m in ms}

  def nontrivial_row(self, cfg, rows):
    return len({repr(r[0]) for r in rows}) >= 2


class TopKConfusionMatrixE(ConfusionMatrixE):
  name = 'TopKConfusionMatrixAggFn'

  def cfg(self):
    return _cm_cfg(self.need_vocab, topk=True)

  def agg(self, cfg):
    from ml_metrics._src.aggregates import classification  # pylint: disable=g-import-not-at-top
    kw = {}
    if cfg.get('vocab'):
      kw['vocab'] = {k: i for i, k in enumerate(cfg['vocab'])}
    return classification.TopKConfusionMatrixAggFn(metrics=cfg['metrics'], input_type=cfg['input_type'],
                                                   average=cfg['average'], k_list=list(cfg['k_list']), **kw)

  def ref(self, cfg, rows):
    ms = [cfg['metrics']] if isinstance(cfg['metrics'], str) else cfg['metrics']
    out = {m: [] for m in ms}
    for k in cfg['k_list']:
      if cfg['input_type'] == 'multiclass':
        rk = rows
      else:
        rk = [[r[0], r[1][:k]] for r in rows]
      # the class universe is that of the whole input, not of the truncated predictions
      c2 = dict(cfg)
      if not cfg.get('vocab'):
        c2['vocab'] = sorted({x for r in rows for c in (r if cfg['input_type'] == 'multiclass' else
                                                          [y for col in r for y in col]) for x in [c]})
      ts, ps, classes, pos = _label_sets(c2, rk)
      for m in ms:
        out[m].append(ref.confusion_metric(m, cfg['average'], ts, ps, classes, pos))
    return out


class SamplewiseE(Entry):
  name = 'SamplewiseClassification'
  per_row = True
  need_vocab = False

  def cfg(self):
    return _cm_cfg(self.need_vocab, samplewise=True)

  def row(self, cfg):
    return _cm_rows(cfg)

  def make(self, cfg):
    from ml_metrics._src.aggregates import classification  # pylint: disable=g-import-not-at-top
    kw = {}
    if cfg.get('vocab'):
      kw['vocab'] = {k: i for i, k in enumerate(cfg['vocab'])}
    return classification.SamplewiseClassification(metrics=cfg['metrics'], input_type=cfg['input_type'], **kw)

  def args(self, cfg, rows):
    return _cm_args(cfg, rows)

  def norm(self, cfg, r):
    if isinstance(cfg['metrics'], str):
      return {cfg['metrics']: tolist(r)}
    return {str(k.value if hasattr(k, 'value') else k): tolist(v) for k, v in r.items()}

  def rows_norm(self, cfg, add_return):
    return {str(k.value if hasattr(k, 'value') else k): tolist(v) for k, v in add_return.items()}

  def ref_rows(self, cfg, rows):
    ts, ps, classes, _ = _label_sets(cfg, rows)
    ms = [cfg['metrics']] if isinstance(cfg['metrics'], str) else cfg['metrics']
    return {m: ref.samplewise_metric(m, ts, ps, classes) for m in ms}

  def ref(self, cfg, rows):
    return {m: ref.sdiv(math.fsum(v), len(v)) for m, v in self.ref_rows(cfg, rows).items()}


class CalibrationHistogramE(Entry):
  name = 'CalibrationHistogram'
  apis = ('metric',)

  def cfg(self):
    return st.sampled_from([1, 2, 4, 8]).map(lambda b: {'bins': b})

  def row(self, cfg):
    return st.tuples(st.sampled_from([0.0, 1.0, 0.5]), st.sampled_from(PROBS)).map(list)

  def make(self, cfg):
    from ml_metrics._src.metrics import classification  # pylint: disable=g-import-not-at-top
    return classification.CalibrationHistogram(bins=cfg['bins'])

  def args(self, cfg, rows):
    return (np.array([r[0] for r in rows], dtype=float), np.array([r[1] for r in rows], dtype=float))

  def norm(self, cfg, r):
    return {'num_examples_hist': tolist(r.num_examples_hist), 'labels_hist': tolist(r.labels_hist),
            'predictions_hist': tolist(r.predictions_hist), 'bin_edges': tolist(r.bin_edges)}

  def ref(self, cfg, rows):
    e = [i / cfg['bins'] for i in range(cfg['bins'] + 1)]
    labels, preds = [r[0] for r in rows], [r[1] for r in rows]
    return {'num_examples_hist': ref.histogram(labels + preds, e), 'labels_hist': ref.histogram(labels, e, labels),
            'predictions_hist': ref.histogram(preds, e, preds), 'bin_edges': e}


def _id_rows(with_prob):
  true = st.lists(st.sampled_from(IDS), min_size=1, max_size=4, unique=True)
  pred = st.lists(st.sampled_from(IDS), min_size=1, max_size=5, unique=True)
  if not with_prob:
    return st.tuples(true, pred).map(list)

  @st.composite
  def s(draw):
    t, p = draw(true), draw(pred)
    return [t, p, [draw(st.sampled_from(PROBS)) for _ in p]]
  return s()


class ThresholdedRetrievalE(Entry):
  name = 'ThresholdedRetrieval'
  apis = ('metric',)

  def cfg(self):
    return st.lists(st.sampled_from(PROBS[:-1]), min_size=1, max_size=3, unique=True).map(lambda t: {'thresholds': t})

  def row(self, cfg):
    return _id_rows(True)

  def make(self, cfg):
    from ml_metrics._src.aggregates import retrieval  # pylint: disable=g-import-not-at-top
    return retrieval.ThresholdedRetrieval(thresholds=list(cfg['thresholds']))

  def args(self, cfg, rows):
    return ([list(r[0]) for r in rows], [list(r[1]) for r in rows], [list(r[2]) for r in rows])

  def norm(self, cfg, r):
    return {str(k): tolist(v) for k, v in r.items() if str(k) != 'thresholds'}

  def ref(self, cfg, rows):
    return ref.thresholded_retrieval(rows, cfg['thresholds'])


RETRIEVAL_METRICS = [
    'precision', 'ppv', 'recall', 'sensitivity', 'tpr', 'positive_predictive_value', 'intersection_over_union',
    'f1_score', 'accuracy', 'mean_average_precision', 'mean_reciprocal_rank', 'miss_rate', 'false_discovery_rate',
    'threat_score', 'fowlkes_mallows_index', 'dcg_score', 'ndcg_score']


class TopKRetrievalE(Entry):
  name = 'TopKRetrieval'
  per_row = True

  def cfg(self):
    @st.composite
    def s(draw):
      kl = draw(st.one_of(st.none(), st.lists(st.integers(1, 7), min_size=1, max_size=3, unique=True).map(sorted)))
      ms = draw(st.lists(st.sampled_from(RETRIEVAL_METRICS), min_size=1, max_size=4, unique=True))
      # the relevant ids of an example are only asked for their size and for membership: any such container will do
      cfg = {'k_list': kl, 'metrics': ms, 'true_as': draw(st.sampled_from(['list', 'list', 'tuple', 'set', 'frozenset', 'dict_keys']))}
      # the metrics option as a list, a tuple or (one metric) the bare name / enum member; the result is then the bare array
      cfg['metrics_as'] = draw(st.sampled_from(['list', 'tuple'] + (['name', 'name', 'member'] if len(ms) == 1 else [])))
      return cfg
    return s()

  def row(self, cfg):
    return _id_rows(False)

  def make(self, cfg):
    from ml_metrics._src.aggregates import retrieval  # pylint: disable=g-import-not-at-top
    how = cfg.get('metrics_as', 'list')
    if how == 'name':
      ms = cfg['metrics'][0]
    elif how == 'member':
      ms = retrieval.RetrievalMetric(cfg['metrics'][0])
    else:
      ms = list(cfg['metrics']) if how == 'list' else tuple(cfg['metrics'])
    return retrieval.TopKRetrieval(k_list=cfg['k_list'], metrics=ms)

  def args(self, cfg, rows):
    mk = {'list': list, 'tuple': tuple, 'set': set, 'frozenset': frozenset, 'dict_keys': lambda t: dict.fromkeys(t).keys()}[
        cfg.get('true_as', 'list')]
    return ([mk(r[0]) for r in rows], [list(r[1]) for r in rows])

  def norm(self, cfg, r):
    if cfg.get('metrics_as') in ('name', 'member'):
      # one metric named directly: the result is the bare array (a mapping is normalised like the list form)
      if not isinstance(r, dict):
        return {cfg['metrics'][0]: tolist(r)}
    return {str(k.value if hasattr(k, 'value') else k): tolist(v) for k, v in r.items()}

  def ref_rows(self, cfg, rows):
    out = {}
    for m in cfg['metrics']:
      vals = []
      for t, p in rows:
        ks = cfg['k_list'] or [len(p)]
        vals.append([ref.retrieval_row(m, t, p, k) for k in ks])
      out[m] = vals
    return out

  def ref(self, cfg, rows):
    out = {}
    for m, vals in self.ref_rows(cfg, rows).items():
      out[m] = [math.fsum(v[i] for v in vals) / len(vals) for i in range(len(vals[0]))]
    return out

  def nontrivial_row(self, cfg, rows):
    return len({len(r[1]) for r in rows}) >= 2


ENTRIES = [
    MeanE(), MeanVarE(), VarE(), MinMaxE(), HistogramE(), CounterE(), UnboundedSamplerE(), ValueAccumulatorE(),
    FixedSizeSampleE(), R2TjurE(), R2TjurRelE(), RRegressionE(), SymPredDiffE(), MeanStateE(), TupleMeanStateE(),
    TopKWordNGramsE(), PatternFrequencyE(), ConfusionMatrixE(), TopKConfusionMatrixE(), SamplewiseE(),
    CalibrationHistogramE(), ThresholdedRetrievalE(), TopKRetrievalE(),
]
BY_NAME = {e.name: e for e in ENTRIES}


def with_vocab(entry_name):
  """Variant of a classification entry that always passes an explicit vocab (C01 / C11 precondition)."""
  e = type(BY_NAME[entry_name])()
  e.need_vocab = True
  return e
