"""Helpers to run real ml-metrics servers / worker pools / orchestrators in process on the fake transport."""
from __future__ import annotations

import itertools
import json
import queue
import random
import threading
import time

from vlib import targets

_uid = itertools.count()


def col_add1(xs):
  return [x + 1 for x in xs]


def col_double(xs):
  return [2 * x for x in xs]


def head_even(xs):
  return xs[0] % 2 == 0


def col_fail_on(poison):
  def fn(xs):
    if any(x in poison for x in xs):
      raise ValueError(f'application error on {[x for x in xs if x in poison][0]}')
    return [x + 1 for x in xs]
  return fn


def define_pipeline(data, shape, shard_index=0, num_shards=1):
  """Importable pipeline factory (pickled by reference). data: list of {'a': [ints]} batches.

  shape: {'filter': bool, 'second_agg': bool, 'poison': [...], 'num_threads': n}
  """
  from ml_metrics._src.aggregates import rolling_stats  # pylint: disable=g-import-not-at-top
  from ml_metrics._src.chainables import io, transform  # pylint: disable=g-import-not-at-top
  src = io.SequenceDataSource(data).shard(shard_index, num_shards)
  if shape.get('oneshot'):
    src = iter(src)      # a source that can be read once: every run has to build its own pipeline
  t = transform.TreeTransform.new(num_threads=shape.get('num_threads', 0)).data_source(src)
  if shape.get('poison'):
    t = t.assign('x', fn=col_fail_on(tuple(shape['poison'])), input_keys='a')
  else:
    t = t.assign('x', fn=col_add1, input_keys='a')
  if shape.get('filter'):
    t = t.filter(head_even, input_keys='a')
  if shape.get('chain2'):
    # two named stages, both aggregating: the states of both runners travel in one merged state
    t = transform.TreeTransform.new(name='first').data_source(src).assign('x', fn=col_add1, input_keys='a').aggregate(
        targets.SumAgg(), input_keys='x', output_keys=('s1', 'n1'))
    t2 = transform.TreeTransform.new(name='second').assign('y', fn=col_double, input_keys='x').aggregate(
        targets.SumAgg(), input_keys=('x', 'y'), output_keys=('s', 'n'))
    return t.chain(t2)
  t = t.assign('y', fn=col_double, input_keys='x')
  t = t.aggregate(targets.SumAgg(), input_keys=('x', 'y'), output_keys=('s', 'n'))
  if shape.get('second_agg'):
    t = t.add_aggregate(fn=rolling_stats.Counter().as_agg_fn(), input_keys='a', output_keys='cnt')
    # ... and one whose state is a plain int (equal shards deliver equal, interned, states)
    t = t.add_aggregate(fn=targets.RowCount(), input_keys='a', output_keys='rc')
  return t


def define_pipeline_h(data_t, shape_t, shard_index=0, num_shards=1):
  """define_pipeline with hashable arguments (tuples): data_t = tuple of tuples of ints, shape_t = sorted shape items."""
  return define_pipeline([{'a': list(b)} for b in data_t], dict(shape_t), shard_index, num_shards)


def canon(x):
  return json.dumps(x, sort_keys=True, default=str)


class Cluster:
  """n prefetching worker servers + a WorkerPool on the fake transport."""

  def __init__(self, n, *, prefetch_size=2, iterate_batch_size=1, call_timeout=5, tag='w'):
    import courier  # pylint: disable=g-import-not-at-top
    from ml_metrics._src.chainables import courier_server, courier_worker  # pylint: disable=g-import-not-at-top
    from ml_metrics._src.utils import courier_utils  # pylint: disable=g-import-not-at-top
    self.courier = courier
    self.uid = next(_uid)
    self.prefetch_size = prefetch_size
    self.addrs = [f'{tag}{self.uid}_{i}' for i in range(n)]
    self.servers = {}
    for a in self.addrs:
      self._start_server(a)
    self.pool = courier_worker.WorkerPool(self.addrs, call_timeout=call_timeout, iterate_batch_size=iterate_batch_size)
    self._registry = courier_utils.worker_registry()

  def _start_server(self, addr):
    from ml_metrics._src.chainables import courier_server  # pylint: disable=g-import-not-at-top
    from ml_metrics._src.utils import courier_utils  # pylint: disable=g-import-not-at-top
    # a fresh object under a fresh identity (the class is a singleton keyed by address/timeouts/prefetch size)
    s = courier_server.PrefetchedCourierServer(addr, prefetch_size=self.prefetch_size, timeout_secs=10200 + next(_uid))
    s.start()
    self.servers[addr] = s
    courier_utils.worker_registry().register(addr, time.time())
    return s

  def restart(self, addr):
    """A worker comes back as a fresh process: generator and object cache of the old one are gone."""
    old = self.servers.get(addr)
    if old is not None:
      old._generator = None  # pylint: disable=protected-access
      old._request_shutdown()  # pylint: disable=protected-access
      if old._server is not None:  # pylint: disable=protected-access
        old._server.Stop()  # pylint: disable=protected-access
    self._start_server(addr)

  def stop(self):
    for s in self.servers.values():
      try:
        s._request_shutdown()  # pylint: disable=protected-access
      except Exception:  # pylint: disable=broad-exception-caught
        pass
    for w in self.pool.all_workers:
      w.release()


def run_with_watchdog(fn, timeout):
  """-> ('ok', result) | ('error', exc) | ('hang', None)."""
  box = {}

  def body():
    try:
      box['r'] = fn()
    except BaseException as e:  # pylint: disable=broad-exception-caught
      box['e'] = e
  th = threading.Thread(target=body, daemon=True)
  th.start()
  th.join(timeout)
  if th.is_alive():
    return 'hang', None
  if 'e' in box:
    return 'error', box['e']
  return 'ok', box.get('r')


def drain_queue(q, wait_first=5.0):
  out = []
  try:
    out.append(q.get(timeout=wait_first))
  except queue.Empty:
    return out
  while True:
    try:
      out.append(q.get(timeout=0.2))
    except queue.Empty:
      return out


def in_process(data, shape):
  """Reference run: the same pipeline, one process, one shard."""
  it = define_pipeline(data, shape).make().iterate()
  out = list(it)
  return out, it.agg_result


def seed_random(n):
  random.seed(n)


# ------------------------------------------------------------------------------------------------ schedule perturbation
PERTURB = {'empty_delay': 0.0}


class _SlowSimpleQueue(queue.SimpleQueue):
  """queue.SimpleQueue whose empty() lingers after answering True: the polling loop of the orchestration layer is held
  between "the queue is empty" and its next step, so producers get to run in exactly that window (generated per case)."""

  def empty(self):
    r = super().empty()
    if r and PERTURB['empty_delay']:
      time.sleep(PERTURB['empty_delay'])
    return r


class _QueueModule:
  """Stands in for the `queue` module inside a module under test (attribute rebinding, no source change)."""
  SimpleQueue = _SlowSimpleQueue

  def __getattr__(self, name):
    return getattr(queue, name)


def perturb_polling(module):
  """Rebinds `module.queue` so that SimpleQueues created there linger after an `empty()` that returned True."""
  module.queue = _QueueModule()
