"""In-process fake of the dm-launchpad `courier` RPC package (prototype)."""
import threading, itertools
from concurrent import futures

_REG = {}
_REG_LOCK = threading.Lock()
_PORT = itertools.count(20000)
FAULTS = {}   # (address, method) -> list of actions consumed per call
CALLS = []
_POOL = futures.ThreadPoolExecutor(max_workers=64, thread_name_prefix='fakecourier')

class StatusNotOk(Exception):
  def __init__(self, code, message):
    super().__init__(message)
    self.code = code
    self.message = message

class Server:
  def __init__(self, name=None, port=None, thread_pool_size=16):
    self._name = name
    self._port = port or next(_PORT)
    self._handlers = {}
    self.has_started = False
  @property
  def address(self):
    return self._name or f'localhost:{self._port}'
  def Bind(self, name, fn):
    self._handlers[name] = fn
  def Unbind(self, name):
    self._handlers.pop(name, None)
  def Start(self):
    with _REG_LOCK:
      _REG[self.address] = self
    self.has_started = True
  def Stop(self):
    with _REG_LOCK:
      if _REG.get(self.address) is self:
        del _REG[self.address]
    self.has_started = False
  def Join(self):
    pass

class _Futures:
  def __init__(self, client):
    self._client = client
  def __getattr__(self, method):
    def call(*args, **kwargs):
      return self._client._call(method, args, kwargs)
    return call

class Client:
  def __init__(self, address, call_timeout=None, **kw):
    self.address = address
    self.call_timeout = call_timeout
    self.futures = _Futures(self)
  def _call(self, method, args, kwargs):
    fut = futures.Future()
    def run():
      if not fut.set_running_or_notify_cancel():
        return
      with _REG_LOCK:
        server = _REG.get(self.address)
        plan = FAULTS.get((self.address, method))
        action = plan.pop(0) if plan else 'ok'
        CALLS.append((self.address, method, action))
      if action == 'deadline_before':
        fut.set_exception(StatusNotOk(4, 'deadline exceeded (injected, before)')); return
      if action == 'die':
        with _REG_LOCK: _REG.pop(self.address, None)
        fut.set_exception(StatusNotOk(4, 'deadline exceeded (server died)')); return
      if server is None or method not in server._handlers:
        fut.set_exception(StatusNotOk(4 if server is None else 12, f'{method}@{self.address} unavailable'))
        return
      try:
        res = server._handlers[method](*args, **kwargs)
        if action == 'deadline_after':
          fut.set_exception(StatusNotOk(4, 'deadline exceeded (injected, after)')); return
        fut.set_result(res)
      except Exception as e:
        fut.set_exception(StatusNotOk(2, f'{type(e).__name__}: {e}'))
    _POOL.submit(run)
    return fut
  def __getattr__(self, method):
    if method.startswith('_'):
      raise AttributeError(method)
    return lambda *a, **k: self._call(method, a, k).result()
