"""In-process stand-in for the dm-launchpad `courier` RPC package, with generated fault plans.

Provides what ml-metrics uses: Server(name, port).{Bind, Unbind, Start, Stop, Join, has_started, address},
Client(address, call_timeout).futures.<method>(*args, **kwargs) -> concurrent.futures.Future, and errors carrying
`.code` (4 = deadline exceeded) and `.message`. Handlers run on transport threads (a thread pool), concurrently.

Fault plan: PLANS[(address, method)] = list of actions consumed one per call of that method on that server:
  'ok' | 'deadline_before' (handler not run, code 4) | 'deadline_after' (handler runs, reply dropped, code 4)
  | 'die' (server leaves the transport; this and every later call to it fails with code 4)
  | 'restart' (RESTART_HOOK(address) replaces the server by a fresh one, then the call is delivered to the new one)
  | 'hold' (the reply is parked in HELD until the harness releases it)
  | 'park' (the request itself is parked in PARKED: the handler has not run yet; release_parked() lets it through).
Calls to an address without a started server fail with code 4 (a real client would block until its deadline).
"""
from __future__ import annotations

import itertools
import threading
from concurrent import futures

_LOCK = threading.RLock()
_REG = {}
_PORT = itertools.count(20000)
PLANS = {}
CALLS = []
HELD = []
PARKED = []
LOG_REPLIES = False  # when set, the reply of a delivered call is appended to its CALLS entry
INTERCEPT = None    # callable(address, method) -> action | None, consulted when the plan has nothing for the call
DEAD = set()
RESTART_HOOK = None
STATS = {'faults_hit': 0, 'calls': 0}
_EXECUTOR = None
_FUTURE_CLS = futures.Future
_CURRENT = threading.local()


def current_address():
  """Address of the server whose handler runs on this thread (lets a generated task address 'the worker I run on')."""
  return getattr(_CURRENT, 'address', None)


class StatusNotOk(Exception):

  def __init__(self, code, message):
    super().__init__(message)
    self.code = code
    self.message = message


def _executor():
  global _EXECUTOR
  if _EXECUTOR is None:
    _EXECUTOR = futures.ThreadPoolExecutor(max_workers=64, thread_name_prefix='fakecourier')
  return _EXECUTOR


def set_executor(executor, future_cls=futures.Future):
  """Lets a harness run the transport on its own (e.g. virtual) threads."""
  global _EXECUTOR, _FUTURE_CLS
  _EXECUTOR, _FUTURE_CLS = executor, future_cls


def reset():
  """Forgets servers, plans and logs (between generated cases)."""
  global RESTART_HOOK
  with _LOCK:
    _REG.clear()
    PLANS.clear()
    del CALLS[:]
    del HELD[:]
    del PARKED[:]
    DEAD.clear()
    RESTART_HOOK = None
    globals()['INTERCEPT'] = None
    globals()['LOG_REPLIES'] = False
    STATS.update(faults_hit=0, calls=0)


def in_flight():
  return sum(1 for c in CALLS if c[3] == 'running')


class Server:

  def __init__(self, name=None, port=None, thread_pool_size=16):
    self._name = name
    self._port = port or next(_PORT)
    self._handlers = {}
    self.has_started = False

  @property
  def address(self):
    return self._name or f'localhost:{self._port}'

  def Bind(self, name, fn):  # pylint: disable=invalid-name
    self._handlers[name] = fn

  def Unbind(self, name):  # pylint: disable=invalid-name
    self._handlers.pop(name, None)

  def Start(self):  # pylint: disable=invalid-name
    with _LOCK:
      _REG[self.address] = self
      DEAD.discard(self.address)
    self.has_started = True

  def Stop(self):  # pylint: disable=invalid-name
    with _LOCK:
      if _REG.get(self.address) is self:
        del _REG[self.address]
    self.has_started = False

  def Join(self):  # pylint: disable=invalid-name
    pass


class _Futures:

  def __init__(self, client):
    self._client = client

  def __getattr__(self, method):
    if method.startswith('__'):
      raise AttributeError(method)

    def call(*args, **kwargs):
      return self._client._call(method, args, kwargs)  # pylint: disable=protected-access
    return call


def release_parked(address=None):
  """Lets the parked requests (of one server) through, in order; returns how many."""
  n = 0
  while True:
    with _LOCK:
      idx = next((i for i, h in enumerate(PARKED) if address is None or h[0] == address), None)
      if idx is None:
        return n
      _, go = PARKED.pop(idx)
    threading.Thread(target=go, daemon=True).start()     # the handler may block
    n += 1


def release_address(address):
  """Completes every held reply of one server; returns how many."""
  n = 0
  while True:
    with _LOCK:
      idx = next((i for i, h in enumerate(HELD) if len(h) > 2 and h[2] == address), None)
      if idx is None:
        return n
      fut, result, *_ = HELD.pop(idx)
    fut.set_result(result)
    n += 1


def release(i=0, ok=True):
  """Completes the i-th held reply (ok) or fails it with deadline exceeded."""
  with _LOCK:
    fut, result, *_ = HELD.pop(i)
  if ok:
    fut.set_result(result)
  else:
    fut.set_exception(StatusNotOk(4, 'deadline exceeded (held reply dropped)'))


class Client:

  def __init__(self, address, call_timeout=None, **kw):
    self.address = address
    self.call_timeout = call_timeout
    self.futures = _Futures(self)

  def _call(self, method, args, kwargs):
    fut = _FUTURE_CLS()
    address = self.address

    def run():
      if hasattr(fut, 'set_running_or_notify_cancel') and not fut.set_running_or_notify_cancel():
        return
      hint = INTERCEPT(address, method) if INTERCEPT is not None else None     # outside the transport lock: it may wait
      with _LOCK:
        STATS['calls'] += 1
        plan = PLANS.get((address, method))
        action = plan.pop(0) if plan else 'ok'
        if action == 'ok' and hint:
          action = hint
        if action != 'ok':
          STATS['faults_hit'] += 1
        entry = [address, method, action, 'running']
        CALLS.append(entry)
        if action == 'die':
          _REG.pop(address, None)
          DEAD.add(address)
        hook = RESTART_HOOK
        if action == 'park':
          # the request is delayed in the network: the handler only runs once the harness lets it through
          PARKED.append((address, lambda: deliver('ok', entry, hook)))
          return
      deliver(action, entry, hook)

    def deliver(action, entry, hook):
      try:
        if action == 'restart' and hook is not None:
          hook(address)
        if action == 'deadline_before':
          fut.set_exception(StatusNotOk(4, f'deadline exceeded calling {method}@{address} (injected before delivery)'))
          return
        with _LOCK:
          server = None if address in DEAD else _REG.get(address)
        if server is None or not server.has_started or method not in server._handlers:  # pylint: disable=protected-access
          fut.set_exception(StatusNotOk(4, f'deadline exceeded: {method}@{address} is unreachable'))
          return
        try:
          _CURRENT.address = address
          res = server._handlers[method](*args, **kwargs)  # pylint: disable=protected-access
        except Exception as e:  # pylint: disable=broad-exception-caught
          fut.set_exception(StatusNotOk(2, f'{type(e).__module__}.{type(e).__name__}: {e}'))
          return
        if action == 'deadline_after':
          fut.set_exception(StatusNotOk(4, f'deadline exceeded calling {method}@{address} (injected after delivery)'))
          return
        if action == 'hold':
          with _LOCK:
            HELD.append((fut, res, address))
          return
        if LOG_REPLIES:
          entry.append(res)
        fut.set_result(res)
      finally:
        entry[3] = 'done'
    _executor().submit(run)
    return fut

  def __getattr__(self, method):
    if method.startswith('_'):
      raise AttributeError(method)
    return lambda *a, **k: self._call(method, a, k).result()
