"""Coverage-guided fuzzing child (atheris / libFuzzer): bytes -> case description -> the scenario's own run+oracle.

Started by vlib.unit in mode 'fuzz'. Writes its statistics (and the first violating case) to spec['stats'] because
atheris.Fuzz() never returns. Supplementary engine: no property is decided by it alone.
"""
import importlib
import json
import os
import sys


def main():
  with open(sys.argv[1]) as f:
    spec = json.load(f)
  import atheris  # pylint: disable=g-import-not-at-top
  from vlib import unit  # pylint: disable=g-import-not-at-top
  unit._quiet()  # pylint: disable=protected-access
  with atheris.instrument_imports(include=spec.get('instrument', ['ml_metrics'])):
    from vlib import core  # pylint: disable=g-import-not-at-top
    core.assert_repo()
    for m in spec.get('instrument', []):
      importlib.import_module(m)       # property modules import the library lazily: import what is to be instrumented here
    mod = importlib.import_module(f'props.{spec["prop"].lower()}')
  scen = {s.name: s for s in mod.SCENARIOS}[spec['scenario']]
  if scen.setup is not None:
    scen.setup()
  from vlib.core import Violation, Inconclusive, case_hash  # pylint: disable=g-import-not-at-top
  st = {'execs': 0, 'decoded': 0, 'nontrivial': set(), 'failure': None, 'excluded_known': {}}
  known = unit._known_filter(mod, spec['prop'])  # pylint: disable=protected-access

  def flush():
    tmp = spec['stats'] + '.tmp'
    with open(tmp, 'w') as f:
      json.dump({'execs': st['execs'], 'decoded': st['decoded'], 'nontrivial': len(st['nontrivial']), 'failure': st['failure'],
                 'excluded_known': st['excluded_known']}, f, default=str)
    os.replace(tmp, spec['stats'])

  def execute(case):
    st['decoded'] += 1
    try:
      info = scen.run(case) or {}
    except Inconclusive:
      return
    except Violation as v:
      for kid, pred in known.items():
        try:
          hit = pred(scen.name, case, v)
        except Exception:  # pylint: disable=broad-exception-caught
          hit = False
        if hit:       # a recorded open finding: counted and stepped over, like in the Hypothesis units
          st['excluded_known'][kid] = st['excluded_known'].get(kid, 0) + 1
          return
      st['failure'] = {'case': case, 'violation': v.to_json()}
      flush()
      os._exit(77)
    if info.get('nontrivial'):
      st['nontrivial'].add(case_hash(case))

  if scen.decode is not None:
    def feed(data):
      case = scen.decode(atheris.FuzzedDataProvider(data))
      if case is not None:
        execute(case)
  else:
    # no hand-written decoder: libFuzzer's bytes drive the scenario's Hypothesis strategy (fuzz_one_input)
    import hypothesis  # pylint: disable=g-import-not-at-top
    from hypothesis import given, settings, HealthCheck  # pylint: disable=g-import-not-at-top

    @settings(database=None, deadline=None, suppress_health_check=list(HealthCheck))
    @given(scen.strategy(spec['tier']))
    def test(case):
      execute(case)
    feed = test.hypothesis.fuzz_one_input

  def one(data):
    st['execs'] += 1
    feed(data)
    if st['execs'] % 500 == 0 or st['execs'] >= spec['runs']:
      flush()

  os.makedirs(spec['corpus'], exist_ok=True)
  argv = [sys.argv[0], f'-runs={spec["runs"]}', f'-seed={spec["seed"] % (2**31 - 1) or 1}', f'-max_len={spec.get("max_len", 64 if scen.decode is not None else 2048)}',
          '-print_final_stats=1'] + ([] if scen.decode is not None else ['-len_control=0']) + [spec['corpus']]
  atheris.Setup(argv, one)
  atheris.Fuzz()


if __name__ == '__main__':
  main()
