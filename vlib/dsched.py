"""Harness-owned deterministic thread scheduler.

Virtual threads are real OS threads that only run while holding the single baton. Shim classes for
threading.{Lock,RLock,Condition,Event,Thread}, queue.{Queue,SimpleQueue}, concurrent.futures.{ThreadPoolExecutor,
Future,wait,as_completed} and time.{time,sleep,monotonic} turn every synchronisation operation into a scheduling
point at which the *schedule* (generated data) picks the next thread. Blocking is modelled: a thread blocked on a
lock/condition/queue/future is not runnable; if nothing is runnable and no timed wait is pending the run is a
deadlock (reported with the blocked threads' stacks inside the code under test); timed waits fire on a virtual clock.

Line-level preemption (optional): a schedule with 'line_preempt': [[n, choice], ...] (or 'count_lines': True) installs a
sys.settrace hook in every virtual thread; each executed source line of a file under LINE_ROOT (the library under test)
is counted, and when the global count reaches n the running thread is preempted in favour of another runnable thread even
though it is between two plain statements. This reaches races on state that is not protected by any lock at all, which
the synchronisation-point schedules above cannot.
"""
from __future__ import annotations

import collections
from concurrent import futures as _f
import os
import queue as _q
import random
import sys
import threading as _t
import traceback
import types


class Deadlock(Exception):
  """No virtual thread can make progress and no timer is pending."""


class StepBudget(Exception):
  """The schedule exceeded the step budget (inconclusive, never a violation)."""


class _Killed(BaseException):
  """Raised inside virtual threads to unwind them when a run is aborted."""


# ----------------------------------------------------------------------------------------------- schedules
class Schedule:
  """schedule = {'mode': 'walk'|'pct'|'np', 'choices': [...], 'seed': n, 'change_points': [...]}."""

  def __init__(self, spec):
    self.spec = spec or {}
    self.mode = self.spec.get('mode', 'walk')
    self.choices = list(self.spec.get('choices', []))
    self.pos = 0
    self.rnd = random.Random(self.spec.get('seed', 0))
    self.change_points = set(self.spec.get('change_points', []))
    self.prio = {}
    self.p_switch = self.spec.get('p_switch', 0.5)

  def pick(self, sched, runnable, cur):
    """runnable: list of VT (len >= 2). Returns one of them."""
    if self.mode == 'np':
      return cur if cur in runnable else runnable[0]
    if self.mode == 'pct':
      for vt in runnable:
        if vt.name not in self.prio:
          self.prio[vt.name] = self.rnd.random()
      if sched.steps in self.change_points and cur is not None:
        self.prio[cur.name] = -sched.steps
      return max(runnable, key=lambda v: self.prio[v.name])
    # walk: explicit choices first (0 = keep running the current thread when possible), then a seeded PRNG
    order = ([cur] if cur in runnable else []) + [v for v in runnable if v is not cur]
    if self.pos < len(self.choices):
      c = self.choices[self.pos]
      self.pos += 1
      return order[c % len(order)]
    if cur in runnable and self.rnd.random() >= self.p_switch:
      return cur
    return order[self.rnd.randrange(len(order))]


# ----------------------------------------------------------------------------------------------- scheduler
class Sched:

  def __init__(self, schedule, max_steps=20000):
    self.schedule = Schedule(schedule) if not isinstance(schedule, Schedule) else schedule
    self.threads = []
    self.cur = None
    self.now = 0.0
    self.failed = None
    self.steps = 0
    self.max_steps = max_steps
    self.preemptions = 0
    self.context_switches = 0
    self.blocked_events = collections.Counter()
    self.trace = []
    self.done_evt = _t.Event()
    self.aborting = False
    self.idle_at_end = []
    spec = self.schedule.spec
    self.line_targets = {int(n): int(c) for n, c in spec.get('line_preempt', [])}
    # 'focus_preempt' counts only the lines of the code objects in LINE_CODES (set_line_root(extra_codes=...))
    self.focus_targets = {int(n): int(c) for n, c in spec.get('focus_preempt', [])}
    self.trace_lines = bool(self.line_targets or self.focus_targets or spec.get('count_lines')) and LINE_ROOT is not None
    self.lines = 0
    self.focus_lines = 0
    self.line_preemptions = 0

  # -- thread management
  def spawn(self, fn, args=(), name=None):
    vt = VT(self, fn, args, name or f'T{len(self.threads)}')
    self.threads.append(vt)
    vt.start_os()
    return vt

  def runnable(self):
    return [vt for vt in self.threads if not vt.finished and (vt.blocked_on is None or vt.blocked_on())]

  def _abort(self, exc):
    self.failed = self.failed or exc
    self.aborting = True
    for v in self.threads:
      if not v.finished:
        v.kill = True
        v.sem.release()
    self.done_evt.set()

  def _dispatch(self, me_runnable):
    """Called by the baton holder. Returns the next VT to run (or None when the run is over)."""
    self.steps += 1
    if self.steps > self.max_steps:
      self._abort(StepBudget(f'more than {self.max_steps} scheduling points'))
      return None
    r = self.runnable()
    if not r:
      alive = [vt for vt in self.threads if not vt.finished]
      if not alive:
        self.done_evt.set()
        return None
      timed = [vt for vt in alive if vt.deadline is not None]
      if not timed and all(vt.idle for vt in alive):
        # only idle pool workers of never-shut-down executors are left: the run is over (oracles inspect the pools)
        self.idle_at_end = [vt.name for vt in alive]
        self.aborting = True
        for v in alive:
          v.kill = True
          v.sem.release()
        self.done_evt.set()
        return None
      if timed:
        vt = min(timed, key=lambda v: (v.deadline, v.index))
        self.now = max(self.now, vt.deadline)
        vt.timed_out = True
        vt.blocked_on = None
        vt.deadline = None
        r = [vt]
      else:
        self._abort(Deadlock(self._describe(alive)))
        return None
    if len(r) > 1:
      nxt = self.schedule.pick(self, r, self.cur if me_runnable else None)
      if me_runnable and nxt is not self.cur:
        self.preemptions += 1
    else:
      nxt = r[0]
    if nxt is not self.cur:
      self.context_switches += 1
    if len(self.trace) < 4000:
      self.trace.append(nxt.name)
    return nxt

  def _describe(self, alive):
    frames = sys._current_frames()  # pylint: disable=protected-access
    root = os.path.realpath(os.environ.get('VERIF_REPO', '/repo'))
    out = []
    for v in alive:
      where = v.where
      fr = frames.get(v.os.ident) if v.os else None
      stack = []
      if fr is not None:
        for fs in traceback.extract_stack(fr):
          if os.path.realpath(fs.filename).startswith(root):
            stack.append(f'{os.path.basename(fs.filename)}:{fs.lineno}:{fs.name}')
      out.append(f'{v.name} blocked in {where} at [{" > ".join(stack[-4:])}]')
    return 'no runnable thread: ' + '; '.join(out)

  def _switch_from(self, me, nxt):
    if nxt is None:
      if me.kill:
        raise _Killed()
      return
    if nxt is me:
      return
    self.cur = nxt
    nxt.sem.release()
    me.sem.acquire()
    if me.kill:
      raise _Killed()

  def line_point(self, focus=False):
    """Called from the trace hook for every source line of the library executed by the baton holder."""
    me = self.cur
    if me is None or me.kill or self.aborting or me.finished or me.os is not _t.current_thread():
      return
    self.lines += 1
    c = self.line_targets.get(self.lines)
    if focus:
      self.focus_lines += 1
      if c is None:
        c = self.focus_targets.get(self.focus_lines)
    if c is None:
      return
    others = [vt for vt in self.runnable() if vt is not me]
    if not others:
      return
    nxt = others[c % len(others)]
    self.steps += 1
    self.preemptions += 1
    self.line_preemptions += 1
    self.context_switches += 1
    if len(self.trace) < 4000:
      self.trace.append(nxt.name)
    me.where = 'line'
    self._switch_from(me, nxt)

  def yield_(self, where=''):
    me = self.cur
    if me is None or me.kill or self.aborting:
      if me is not None and me.kill:
        raise _Killed()
      return
    me.where = where
    nxt = self._dispatch(True)
    self._switch_from(me, nxt)

  def block(self, pred, where='', timeout=None):
    """Blocks the current virtual thread until pred() holds. Returns False on (virtual) timeout."""
    me = self.cur
    if me.kill or self.aborting:
      raise _Killed()
    if me.pending_exc is not None and where != 'Condition.reacquire':
      exc, me.pending_exc = me.pending_exc, None
      raise exc
    if pred():
      return True
    self.blocked_events[where] += 1
    # an asynchronous exception sent to this thread (interrupt()) also ends the wait; it is raised below
    me.blocked_on = pred if where == 'Condition.reacquire' else (lambda: pred() or me.pending_exc is not None)
    me.where = where
    me.timed_out = False
    me.deadline = None if timeout is None else self.now + max(timeout, 0)
    nxt = self._dispatch(False)
    if nxt is None:
      raise _Killed()
    if nxt is not me:
      self.cur = nxt
      nxt.sem.release()
      me.sem.acquire()
      if me.kill:
        raise _Killed()
    me.blocked_on = None
    me.deadline = None
    if me.pending_exc is not None and where != 'Condition.reacquire':
      exc, me.pending_exc = me.pending_exc, None
      raise exc
    return not me.timed_out

  def finish(self, me):
    me.finished = True
    if self.aborting:
      return
    nxt = self._dispatch(False)
    if nxt is not None:
      self.cur = nxt
      nxt.sem.release()


class VT:

  def __init__(self, s, fn, args, name):
    self.s, self.fn, self.args = s, fn, args
    self.index = len(s.threads)
    self.name = f'{name}#{self.index}'
    self.sem = _t.Semaphore(0)
    self.finished = False
    self.blocked_on = None
    self.deadline = None
    self.timed_out = False
    self.pending_exc = None
    self.where = 'start'
    self.kill = False
    self.exc = None
    self.result = None
    self.os = None
    self.idle = False

  def start_os(self):
    self.os = _t.Thread(target=self._main, daemon=True, name=f'dsched-{self.name}')
    self.os.start()

  def _main(self):
    self.sem.acquire()
    try:
      if self.s.trace_lines:
        sys.settrace(_global_trace)
      if not self.kill:
        self.result = self.fn(*self.args)
    except _Killed:
      pass
    except BaseException as e:  # pylint: disable=broad-exception-caught
      self.exc = e
    finally:
      if self.s.trace_lines:
        sys.settrace(None)
      if self.kill:
        self.finished = True
      else:
        try:
          self.s.finish(self)
        except BaseException:  # pylint: disable=broad-exception-caught
          self.finished = True


SCHED = None
LINE_ROOT = None  # path prefix of the source files whose lines are preemption points (set_line_root)


LINE_CODES = set()  # code objects outside LINE_ROOT whose lines are preemption points too (e.g. a harness generator that
                    # plays the shared input of the code under test)


def set_line_root(path, extra_codes=()):
  global LINE_ROOT
  LINE_ROOT = path
  LINE_CODES.clear()
  LINE_CODES.update(extra_codes)


def _global_trace(frame, event, arg):
  del event, arg
  if LINE_ROOT is not None:
    if frame.f_code in LINE_CODES:
      return _local_trace_focus
    if frame.f_code.co_filename.startswith(LINE_ROOT):
      return _local_trace
  return None


def _local_trace_focus(frame, event, arg):
  del frame, arg
  if event == 'line':
    s = SCHED
    if s is not None:
      s.line_point(focus=True)
  return _local_trace_focus


def _local_trace(frame, event, arg):
  del frame, arg
  if event == 'line':
    s = SCHED
    if s is not None:
      s.line_point()
  return _local_trace


def S():
  return SCHED


def current_name():
  s = SCHED
  return s.cur.name if s and s.cur else 'outside'


# ----------------------------------------------------------------------------------------------- shims
class Lock:

  def __init__(self):
    self.owner = None

  def acquire(self, blocking=True, timeout=-1):
    s = S()
    s.yield_('Lock.acquire')
    if self.owner is not None:
      if not blocking:
        return False
      ok = s.block(lambda: self.owner is None, 'Lock.acquire', None if timeout is None or timeout < 0 else timeout)
      if not ok:
        return False
    self.owner = s.cur
    return True

  def release(self):
    if self.owner is None:
      raise RuntimeError('release unlocked lock')
    self.owner = None
    S().yield_('Lock.release')

  def locked(self):
    return self.owner is not None

  def __enter__(self):
    return self.acquire()

  def __exit__(self, *a):
    self.release()


class RLock:

  def __init__(self):
    self.owner = None
    self.cnt = 0

  def acquire(self, blocking=True, timeout=-1):
    s = S()
    if self.owner is s.cur and s.cur is not None:
      self.cnt += 1
      return True
    s.yield_('RLock.acquire')
    if self.owner is not None:
      if not blocking:
        return False
      ok = s.block(lambda: self.owner is None, 'RLock.acquire', None if timeout is None or timeout < 0 else timeout)
      if not ok:
        return False
    self.owner = s.cur
    self.cnt = 1
    return True

  def release(self):
    s = S()
    if self.owner is not s.cur:
      if s.cur is not None and s.cur.kill:
        raise _Killed()
      raise RuntimeError('cannot release un-acquired lock')
    self.cnt -= 1
    if not self.cnt:
      self.owner = None
      s.yield_('RLock.release')

  def __enter__(self):
    return self.acquire()

  def __exit__(self, *a):
    self.release()

  def _is_owned(self):
    return self.owner is S().cur


class Condition:

  def __init__(self, lock=None):
    self.lock = lock if lock is not None else RLock()
    self.waiters = []

  def acquire(self, *a, **k):
    return self.lock.acquire(*a, **k)

  def release(self):
    return self.lock.release()

  def __enter__(self):
    return self.lock.acquire()

  def __exit__(self, *a):
    self.lock.release()

  def wait(self, timeout=None):
    s = S()
    me = s.cur
    if self.lock.owner is not me:
      raise RuntimeError('cannot wait on un-acquired lock')
    saved = getattr(self.lock, 'cnt', 1)
    if hasattr(self.lock, 'cnt'):
      self.lock.cnt = 0
    self.lock.owner = None
    tok = [False]
    self.waiters.append(tok)
    ok = False
    try:
      ok = s.block(lambda: tok[0], 'Condition.wait', timeout)
    finally:
      if tok in self.waiters:
        self.waiters.remove(tok)
      # like CPython, the lock is taken back before wait() returns or raises (also for an asynchronous exception)
      if not (me.kill or s.aborting):
        if self.lock.owner is not None:
          s.block(lambda: self.lock.owner is None, 'Condition.reacquire')
        self.lock.owner = me
        if hasattr(self.lock, 'cnt'):
          self.lock.cnt = saved
    return ok

  def wait_for(self, predicate, timeout=None):
    end = None if timeout is None else S().now + timeout
    result = predicate()
    while not result:
      remaining = None if end is None else end - S().now
      if remaining is not None and remaining <= 0:
        break
      self.wait(remaining)
      result = predicate()
    return result

  def notify(self, n=1):
    if self.lock.owner is not S().cur:
      raise RuntimeError('cannot notify on un-acquired lock')
    for tok in self.waiters[:n]:
      tok[0] = True
    del self.waiters[:n]

  def notify_all(self):
    self.notify(len(self.waiters))


class Event:

  def __init__(self):
    self.flag = False

  def set(self):
    self.flag = True
    S().yield_('Event.set')

  def clear(self):
    self.flag = False

  def is_set(self):
    return self.flag

  def wait(self, timeout=None):
    if not self.flag:
      return S().block(lambda: self.flag, 'Event.wait', timeout)
    return True


class Thread:

  def __init__(self, group=None, target=None, name=None, args=(), kwargs=None, daemon=None):
    self._target, self._args, self._kwargs = target, args, kwargs or {}
    self.name = name or 'Thread'
    self.daemon = daemon
    self.vt = None

  def run(self):
    if self._target is not None:
      self._target(*self._args, **self._kwargs)

  def start(self):
    s = S()
    self.vt = s.spawn(self.run, name=self.name)
    s.yield_('Thread.start')

  def join(self, timeout=None):
    vt = self.vt
    if vt is not None and not vt.finished:
      S().block(lambda: vt.finished, 'Thread.join', timeout)

  def is_alive(self):
    return self.vt is not None and not self.vt.finished


class SimpleQueue:

  def __init__(self):
    self.d = collections.deque()

  def put(self, x, block=True, timeout=None):
    S().yield_('SimpleQueue.put')
    self.d.append(x)

  def put_nowait(self, x):
    self.put(x)

  def get_nowait(self):
    S().yield_('SimpleQueue.get_nowait')
    if not self.d:
      raise _q.Empty
    return self.d.popleft()

  def get(self, block=True, timeout=None):
    if not block:
      return self.get_nowait()
    S().yield_('SimpleQueue.get')
    if not self.d:
      if not S().block(lambda: bool(self.d), 'SimpleQueue.get', timeout):
        raise _q.Empty
    return self.d.popleft()

  def empty(self):
    return not self.d

  def qsize(self):
    return len(self.d)


class Queue(SimpleQueue):

  def __init__(self, maxsize=0):
    super().__init__()
    self.maxsize = maxsize

  def put_nowait(self, x):
    S().yield_('Queue.put_nowait')
    if self.maxsize and len(self.d) >= self.maxsize:
      raise _q.Full
    self.d.append(x)

  def put(self, x, block=True, timeout=None):
    if not block:
      return self.put_nowait(x)
    S().yield_('Queue.put')
    if self.maxsize and len(self.d) >= self.maxsize:
      if not S().block(lambda: len(self.d) < self.maxsize, 'Queue.put', timeout):
        raise _q.Full
    self.d.append(x)

  def full(self):
    return bool(self.maxsize) and len(self.d) >= self.maxsize


class Future:

  def __init__(self):
    self._done = False
    self._res = None
    self._exc = None
    self._cancelled = False
    self._running = False
    self._callbacks = []

  def done(self):
    return self._done

  def running(self):
    return self._running and not self._done

  def cancel(self):
    if self._done or self._running:
      return self._cancelled
    self._cancelled = True
    self._done = True
    self._fire()
    return True

  def cancelled(self):
    return self._cancelled

  def set_running_or_notify_cancel(self):
    if self._cancelled:
      return False
    self._running = True
    return True

  def _fire(self):
    for cb in self._callbacks:
      cb(self)

  def add_done_callback(self, fn):
    if self._done:
      fn(self)
    else:
      self._callbacks.append(fn)

  def set_result(self, r):
    self._res = r
    self._done = True
    self._fire()

  def set_exception(self, e):
    self._exc = e
    self._done = True
    self._fire()

  def result(self, timeout=None):
    if not self._done:
      if not S().block(lambda: self._done, 'Future.result', timeout):
        raise _f.TimeoutError()
    if self._cancelled:
      raise _f.CancelledError()
    if self._exc is not None:
      raise self._exc
    return self._res

  def exception(self, timeout=None):
    if not self._done:
      if not S().block(lambda: self._done, 'Future.exception', timeout):
        raise _f.TimeoutError()
    if self._cancelled:
      raise _f.CancelledError()
    return self._exc


class ThreadPoolExecutor:

  def __init__(self, max_workers=None, thread_name_prefix='pool', **kw):
    self._max_workers = max_workers or 8
    self._thread_name_prefix = thread_name_prefix
    self._work = collections.deque()
    self._workers = []
    self._shutdown = False
    self._idle = 0
    self._idle_tokens = 0
    self.submitted = []

  def submit(self, fn, *a, **k):
    if self._shutdown:
      raise RuntimeError('cannot schedule new futures after shutdown')
    fut = Future()
    self._work.append((fut, fn, a, k))
    self.submitted.append(fut)
    # CPython: every finished task releases an idle token, every submit consumes one or else starts a new worker
    if self._idle_tokens > 0:
      self._idle_tokens -= 1
      S().yield_('ThreadPoolExecutor.submit')
    elif len(self._workers) < self._max_workers:
      t = Thread(target=self._worker, name=self._thread_name_prefix)
      self._workers.append(t)
      t.start()
    else:
      S().yield_('ThreadPoolExecutor.submit')
    return fut

  def _worker(self):
    s = S()
    while True:
      if not self._work:
        if self._shutdown:
          return
        self._idle += 1
        s.cur.idle = True
        me = s.cur
        try:
          s.block(lambda: bool(self._work) or self._shutdown, 'ThreadPoolExecutor.idle')
        finally:
          me.idle = False
          self._idle -= 1
        continue
      fut, fn, a, k = self._work.popleft()
      if not fut.set_running_or_notify_cancel():
        continue
      try:
        fut.set_result(fn(*a, **k))
      except _Killed:
        raise
      except BaseException as e:  # pylint: disable=broad-exception-caught
        fut.set_exception(e)
      self._idle_tokens += 1
      s.yield_('ThreadPoolExecutor.task_done')

  def shutdown(self, wait=True, cancel_futures=False):
    self._shutdown = True
    if cancel_futures:
      while self._work:
        self._work.popleft()[0].cancel()
    S().yield_('ThreadPoolExecutor.shutdown')
    if wait:
      for t in list(self._workers):
        if t.vt is not S().cur:
          t.join()

  def __enter__(self):
    return self

  def __exit__(self, *a):
    self.shutdown()

  def all_finished(self):
    return all(not t.is_alive() for t in self._workers)


def _wait(fs, timeout=None, return_when='ALL_COMPLETED'):
  fs = list(fs)

  def ready():
    if return_when == 'FIRST_COMPLETED':
      return any(f.done() for f in fs)
    if return_when == 'FIRST_EXCEPTION':
      return all(f.done() for f in fs) or any(f.done() and not f.cancelled() and f._exc is not None for f in fs)  # pylint: disable=protected-access
    return all(f.done() for f in fs)
  if not ready():
    S().block(ready, 'futures.wait', timeout)
  done = {f for f in fs if f.done()}
  return _f._base.DoneAndNotDoneFutures(done, set(fs) - done)  # pylint: disable=protected-access


def _as_completed(fs, timeout=None):
  pending = list(fs)
  while pending:
    if not any(f.done() for f in pending):
      if not S().block(lambda: any(f.done() for f in pending), 'futures.as_completed', timeout):
        raise _f.TimeoutError()
    for f in [f for f in pending if f.done()]:
      pending.remove(f)
      yield f


class _Time:

  def time(self):
    return 1_000_000.0 + S().now

  monotonic = time

  def sleep(self, d):
    s = S()
    if d <= 0:
      s.yield_('time.sleep(0)')
    else:
      s.block(lambda: False, 'time.sleep', d)


threading_shim = types.SimpleNamespace(Lock=Lock, RLock=RLock, Condition=Condition, Thread=Thread, Event=Event,
                                       current_thread=_t.current_thread, get_ident=_t.get_ident)
queue_shim = types.SimpleNamespace(SimpleQueue=SimpleQueue, Queue=Queue, Empty=_q.Empty, Full=_q.Full)
futures_shim = types.SimpleNamespace(
    ThreadPoolExecutor=ThreadPoolExecutor, Future=Future, TimeoutError=_f.TimeoutError, CancelledError=_f.CancelledError,
    wait=_wait, as_completed=_as_completed, FIRST_COMPLETED='FIRST_COMPLETED', FIRST_EXCEPTION='FIRST_EXCEPTION',
    ALL_COMPLETED='ALL_COMPLETED')
time_shim = _Time()


def interrupt(thread, exc):
  """Sends an asynchronous exception (e.g. KeyboardInterrupt) to a virtual thread: it is raised in that thread when it next
  blocks or wakes up from a wait (never while it waits to take a condition's lock back)."""
  vt = getattr(thread, 'vt', thread)
  if vt is not None and not vt.finished:
    vt.pending_exc = exc


def install(*modules, threading=True, queue=True, futures=True, time=False):
  """Rebinds the module-level names of the modules under test to the shims (no repository change)."""
  for m in modules:
    if threading and hasattr(m, 'threading'):
      m.threading = threading_shim
    if queue and hasattr(m, 'queue'):
      m.queue = queue_shim
    if futures and hasattr(m, 'futures'):
      m.futures = futures_shim
    if time and hasattr(m, 'time'):
      m.time = time_shim


def run(fn, schedule, max_steps=20000, real_timeout=60.0):
  """Runs fn() as the 'main' virtual thread under a fresh scheduler. Returns (result, sched).

  Raises Deadlock / StepBudget, or the exception fn raised. Threads left unfinished are reported in sched."""
  global SCHED
  import gc  # pylint: disable=g-import-not-at-top
  s = Sched(schedule, max_steps=max_steps)
  SCHED = s
  gc_was = gc.isenabled()
  gc.disable()
  try:
    m = s.spawn(fn, name='main')
    s.cur = m
    if len(s.trace) < 4000:
      s.trace.append(m.name)
    m.sem.release()
    if not s.done_evt.wait(real_timeout):
      s._abort(RuntimeError('harness hang: ' + s._describe([v for v in s.threads if not v.finished])))  # pylint: disable=protected-access
    for vt in s.threads:
      vt.os.join(0.5)
  finally:
    if gc_was:
      gc.enable()
  if s.failed:
    raise s.failed
  if m.exc is not None:
    raise m.exc
  return m.result, s
