"""Grammar-based generation of TreeTransform programs (by construction: every op only uses keys in scope) and
the builder that turns a JSON program into a real TreeTransform."""
from __future__ import annotations

from hypothesis import strategies as st

from vlib import targets

NEW_NAMES = ['o1', 'o2', 'o3', 'o4', 'o5', 'o6', 'o7', 'o8']


# ------------------------------------------------------------------------------------------------ builder
def to_key(spec):
  from ml_metrics._src.chainables import tree  # pylint: disable=g-import-not-at-top
  if spec == 'SELF':
    return tree.Key.SELF
  if spec == 'SKIP':
    return tree.Key.SKIP
  if isinstance(spec, str):
    return spec
  if 'K' in spec:
    return tree.Key(tuple(tree.Index(c[1]) if isinstance(c, list) else c for c in spec['K']))
  if 'L' in spec:
    return tree.Key.Literal(spec['L'])
  if 'T' in spec:
    return tuple(to_key(s) for s in spec['T'])
  if 'D' in spec:
    return {name: to_key(s) for name, s in spec['D']}
  raise ValueError(spec)


def fn_of(f):
  if f is None:
    return None
  if isinstance(f, list) and f[0] == 'fail':
    return targets.FailOn(f[1], f[2], f[3])
  return targets.FNS[f]


def add_op(t, op, sinks):
  kind = op['op']
  if kind == 'select':
    kw = {}
    if op.get('out') is not None:
      kw['output_keys'] = to_key(op['out'])
    if op.get('batch_size'):
      kw['batch_size'] = op['batch_size']
    return t.select(to_key(op['in']), **kw)
  if kind == 'apply':
    kw = {}
    if op.get('in') != 'DEFAULT':
      kw['input_keys'] = to_key(op['in'])
    if op.get('out') != 'DEFAULT':
      kw['output_keys'] = to_key(op['out'])
    for k in ('batch_size', 'fn_batch_size'):
      if op.get(k):
        kw[k] = op[k]
    return t.apply(fn_of(op['fn']), **kw)
  if kind == 'assign':
    kw = {}
    for k in ('batch_size', 'fn_batch_size'):
      if op.get(k):
        kw[k] = op[k]
    return t.assign(to_key(op['keys']), fn=fn_of(op['fn']), input_keys=to_key(op['in']), **kw)
  if kind == 'filter':
    if op.get('in') == 'DEFAULT':
      return t.filter(fn_of(op['fn']))
    return t.filter(fn_of(op['fn']), input_keys=to_key(op['in']))
  if kind == 'batch':
    return t.batch(op['n'])
  if kind == 'sink':
    s = targets.ListSink()
    sinks.append(s)
    if op.get('in') == 'DEFAULT':
      return t.sink(s)
    return t.sink(s, input_keys=to_key(op['in']))
  raise ValueError(kind)


def build(prog, *, name='', num_threads=0, data_source=None, branch=False):
  """-> (TreeTransform, sinks). branch: every intermediate transform is continued twice (the first continuation is dropped)."""
  from ml_metrics._src.chainables import transform  # pylint: disable=g-import-not-at-top
  t = transform.TreeTransform.new(name=name, num_threads=num_threads)
  if data_source is not None:
    t = t.data_source(data_source)
  sinks = []
  for op in prog['ops']:
    if branch:
      add_op(t, op, [])
    t = add_op(t, op, sinks)
  return t, sinks


# ------------------------------------------------------------------------------------------------ records
def record_strategy():
  iv = st.integers(0, 9)
  return st.fixed_dictionaries({'a': iv, 'b': iv, 'c': iv, 'n': st.fixed_dictionaries({'x': iv, 'y': st.lists(iv, min_size=2, max_size=2)})})


BASE_TYPES = {'a': 'int', 'b': 'int', 'c': 'int', 'n': 'nest'}


def int_access(types):
  out = []
  for name, t in types.items():
    if t == 'int':
      out += [name, {'K': [name]}]
    elif t == 'nest':
      out += [{'K': [name, 'x']}, {'K': [name, 'y', ['I', 0]]}, {'K': [name, 'y', ['I', 1]]}]
    elif t in ('pair', 'triple'):
      out += [{'K': [name, ['I', 0]]}, {'K': [name, ['I', 1]]}]
    elif t == 'dict_uv':
      out += [{'K': [name, 'u']}, {'K': [name, 'v']}]
    elif t == 'mz':
      out += [{'K': [name, 'z']}]
  return out


@st.composite
def _place(draw, rtype, fresh, allow_self):
  """Output placement for a result of type rtype -> (out spec, {new name: type}, okeys list, becomes_scalar)."""
  n1, n2, n3 = fresh[:3]
  if rtype in ('int', 'bool'):
    c = draw(st.integers(0, 4 if allow_self else 3))
    if c == 0:
      return n1, {n1: 'int'}, [n1], False
    if c == 1:
      return {'K': [n1]}, {n1: 'int'}, [n1], False
    if c == 2:
      return {'K': [n1, 'z']}, {n1: 'mz'}, ['PATH'], False
    if c == 3:
      return {'T': [n1]}, {n1: 'int'}, [n1], False
    return 'SELF', {}, [], True
  if rtype == 'pair':
    c = draw(st.integers(0, 3))
    if c == 0:
      return {'T': [n1, n2]}, {n1: 'int', n2: 'int'}, [n1, n2], False
    if c == 1:
      return n1, {n1: 'pair'}, [n1], False
    if c == 2:
      return {'T': [n1, 'SKIP']}, {n1: 'int'}, [n1, 'SKIP'], False
    return {'T': ['SKIP', n2]}, {n2: 'int'}, [n2, 'SKIP'], False
  if rtype == 'triple':
    c = draw(st.integers(0, 2))
    if c == 0:
      return {'T': [n1, n2, n3]}, {n1: 'int', n2: 'int', n3: 'int'}, [n1, n2, n3], False
    if c == 1:
      return n1, {n1: 'triple'}, [n1], False
    return {'T': [n1, 'SKIP', n3]}, {n1: 'int', n3: 'int'}, [n1, n3, 'SKIP'], False
  if rtype == 'dict_uv':
    c = draw(st.integers(0, 3))
    if c == 0:
      return n1, {n1: 'dict_uv'}, [n1], False
    if c == 1:
      return {'D': [[n1, 'u'], [n2, 'v']]}, {n1: 'int', n2: 'int'}, [n1, n2], False
    if c == 3:
      return {'D': [[n1, 'v'], [n2, 'u']]}, {n1: 'int', n2: 'int'}, [n1, n2], False
    return {'D': [[n1, 'v']]}, {n1: 'int'}, [n1], False
  raise ValueError(rtype)


@st.composite
def _call(draw, types, scalar, want_bool=False):
  """Picks a function and its input spec for the current schema -> (fn name, in spec, result type)."""
  if scalar:
    names = ['is_even', 'gt2', 'always', 'never'] if want_bool else ['add1', 'neg', 'ident', 'pair', 'as_dict', 'triple']
    f = draw(st.sampled_from(names))
    return f, draw(st.sampled_from(['DEFAULT', 'SELF'])), targets.SIG[f][1]
  acc = int_access(types)
  if want_bool:
    f = draw(st.sampled_from(['is_even', 'gt2', 'always', 'never']))
  else:
    f = draw(st.sampled_from(['add1', 'neg', 'add', 'mul', 'pair', 'triple', 'as_dict', 'kw_sub', 'count_keys']))
  ar, rt = targets.SIG[f]
  arg = st.one_of(st.sampled_from(acc), st.sampled_from(acc), st.sampled_from(acc), st.integers(0, 9).map(lambda v: {'L': v}))
  if ar == 'self':
    return f, 'SELF', rt
  if ar == 'kw':
    return f, {'D': [['p', draw(arg)], ['q', draw(arg)]]}, rt
  if ar == 1:
    a = draw(arg)
    return f, draw(st.sampled_from([a, {'T': [a]}])), rt
  return f, {'T': [draw(arg) for _ in range(ar)]}, rt


@st.composite
def programs(draw, max_ops=6, allow_batch=True, allow_sink=True, scalar_start=None, allow_select=True, allow_apply=True):
  """-> {'ops': [...], 'scalar': bool (records are ints)}. Tracks the record schema so every op is valid."""
  scalar = draw(st.booleans()) if scalar_start is None else scalar_start
  start_scalar = scalar
  types = {} if scalar else dict(BASE_TYPES)
  okeys = []            # mirror of TreeTransform.output_keys (names; 'SKIP'/'PATH' markers make batch non-generatable)
  fresh = list(NEW_NAMES)
  used_nested = set()
  ops = []
  nops = draw(st.integers(1, max_ops))
  batched = False
  for _ in range(nops):
    if batched:
      kinds = ['sink'] if allow_sink else []
      if not kinds:
        break
    elif scalar:
      kinds = ['apply', 'apply', 'filter'] + (['sink'] if allow_sink else []) + (['batch'] if allow_batch else [])
    else:
      # assigning next to a SELF output is a documented build-time error ("Cannot mix SELF with other keys")
      can_assign = 'SELFKEY' not in okeys
      kinds = (['apply'] if allow_apply else []) + ['filter'] + (['assign', 'assign'] if can_assign else []) + (['select'] if allow_select else []) + (
          ['sink'] if allow_sink else []) + (['batch'] if allow_batch else [])
    kind = draw(st.sampled_from(kinds))
    if kind == 'apply':
      f, in_, rt = draw(_call(types, scalar))
      out, newt, ok, _ = draw(_place(rt, fresh, allow_self=rt == 'int'))
      if rt == 'dict_uv' and draw(st.integers(0, 3)) == 0:
        out, newt, ok = 'SELF', {'u': 'int', 'v': 'int'}, []
      if out == 'SELF' and in_ == 'DEFAULT' and draw(st.booleans()):
        out = 'DEFAULT'
      ops.append({'op': 'apply', 'fn': f, 'in': in_, 'out': out})
      used_nested.clear()
      fresh = [n for n in fresh if n not in newt]
      types = dict(newt)
      if out in ('SELF', 'DEFAULT'):
        okeys, scalar = ['SELFKEY'], rt == 'int'
      else:
        okeys, scalar = list(ok), False
    elif kind == 'assign':
      f, in_, rt = draw(_call(types, False))
      overwrite = [n for n in ('a', 'b', 'c') if n in types and n not in okeys]
      if rt == 'int' and overwrite and draw(st.integers(0, 4)) == 0:
        n = overwrite[0]
        out, newt, ok = n, {n: 'int'}, [n]
      else:
        out, newt, ok, _ = draw(_place(rt, fresh, allow_self=False))
      # outputs written *into* containers that already exist in the record (nested dict / list element): the copy-on-write
      # along the path is what keeps the caller's record intact
      cands = [c for c in ({'K': ['n', 'z' + fresh[0]]}, {'K': ['n', 'y', ['I', 1]]}, {'K': ['n', 'x']}) if repr(c) not in used_nested]
      if types.get('n') == 'nest' and cands and draw(st.integers(0, 3)) == 0:
        nested = draw(st.sampled_from(cands))
        used_nested.add(repr(nested))      # assigning the same key twice is a documented build-time error
        if rt in ('int', 'bool'):
          out, newt, ok = nested, {}, ['PATH']
        elif rt == 'pair':
          first = fresh[0]
          out, newt, ok = draw(st.sampled_from([{'T': [first, nested]}, {'T': [nested, first]}])), {first: 'int'}, [first, 'PATH']
      ops.append({'op': 'assign', 'fn': f, 'in': in_, 'keys': out})
      fresh = [n for n in fresh if n not in newt]
      types.update(newt)
      okeys = okeys + [k for k in ok if k not in okeys]
    elif kind == 'filter':
      f, in_, _ = draw(_call(types, scalar, want_bool=True))
      ops.append({'op': 'filter', 'fn': f, 'in': in_})
    elif kind == 'select':
      names = sorted(types)
      chosen = draw(st.lists(st.sampled_from(names), min_size=1, max_size=3, unique=True))
      mode = draw(st.integers(0, 2))
      if mode == 0:      # plain names, same output names
        in_ = chosen[0] if len(chosen) == 1 and draw(st.booleans()) else {'T': chosen}
        ops.append({'op': 'select', 'in': in_, 'out': None})
        types = {n: types[n] for n in chosen}
        okeys = list(chosen)     # select replaces the record, like apply
      elif mode == 1:    # renamed
        outs = fresh[:len(chosen)]
        ops.append({'op': 'select', 'in': {'T': chosen}, 'out': {'T': outs}})
        types = {o: types[n] for o, n in zip(outs, chosen)}
        fresh = fresh[len(chosen):]
        okeys = list(outs)
      else:              # int access paths re-keyed positionally
        acc = int_access(types)
        paths = draw(st.lists(st.sampled_from(acc), min_size=1, max_size=3))
        outs = fresh[:len(paths)]
        ops.append({'op': 'select', 'in': {'T': paths}, 'out': {'T': outs}})
        types = {o: 'int' for o in outs}
        fresh = fresh[len(paths):]
        okeys = list(outs)
    elif kind == 'sink':
      if scalar or batched or draw(st.booleans()):
        in_ = draw(st.sampled_from(['DEFAULT', 'SELF']))
      else:
        names = sorted(types)
        ch = draw(st.lists(st.sampled_from(names), min_size=1, max_size=2, unique=True))
        in_ = ch[0] if len(ch) == 1 else {'T': ch}
      ops.append({'op': 'sink', 'in': in_})
    elif kind == 'batch':
      n = draw(st.integers(1, 4))
      okeys = [k for k in okeys if k != 'SKIP']
      real = [k for k in okeys if k != 'SELFKEY']
      if 'PATH' in okeys:
        continue
      if okeys == ['SELFKEY'] or not okeys:
        keys = 'SELF'
      elif all(k in types for k in real) and 'SELFKEY' not in okeys:
        keys = list(real)
      else:
        continue
      ops.append({'op': 'batch', 'n': n, 'keys': keys})
      batched = True
      if keys != 'SELF':
        types = {k: 'list' for k in keys}
      else:
        types = {}
      scalar = False
    if len(fresh) < 3:
      break
  return {'ops': ops, 'scalar': start_scalar}
