"""Textbook reference definitions of the shipped metrics, in plain Python (loops, math.fsum).

Conventions encoded here are the documented ones: zero denominator -> 0 (safe_divide), NaN entries are
skipped per column (nanmean / nanvar), population variance, AP@k normalised by min(k, |true|),
binary-relevance DCG, precision@k over min(k, |pred|).
"""
from __future__ import annotations

import collections
import math
import re

NAN = float('nan')


def sdiv(a, b):
  return a / b if b != 0 else 0.0


def isnan(x):
  return isinstance(x, float) and x != x


# ----------------------------------------------------------------------------- rolling stats
def column_stats(values):
  """values: list of float (NaN allowed) -> dict(count, mean, var, total)."""
  xs = [v for v in values if not isnan(v)]
  n = len(xs)
  if n == 0:
    return {'count': 0, 'mean': NAN, 'var': NAN, 'total': 0.0}
  mean = math.fsum(xs) / n
  var = math.fsum((x - mean) ** 2 for x in xs) / n
  return {'count': n, 'mean': mean, 'var': var, 'total': math.fsum(xs)}


def stats(rows, ndim):
  """rows: list of floats (ndim=1) or list of lists (ndim=2)."""
  if ndim == 1:
    return column_stats(rows)
  d = len(rows[0])
  cols = [column_stats([r[j] for r in rows]) for j in range(d)]
  return {k: [c[k] for c in cols] for k in ('count', 'mean', 'var', 'total')}


def histogram(values, edges, weights=None):
  """numpy.histogram semantics: half-open bins, last bin closed, values outside ignored."""
  hist = [0.0 if weights is not None else 0] * (len(edges) - 1)
  for i, v in enumerate(values):
    if v < edges[0] or v > edges[-1]:
      continue
    b = None
    for j in range(len(edges) - 1):
      if edges[j] <= v < edges[j + 1]:
        b = j
        break
    if b is None and v == edges[-1]:
      b = len(edges) - 2
    if b is None:
      continue
    hist[b] += 1 if weights is None else weights[i]
  return hist


def r2tjur(pairs, relative=False):
  pos = [p for y, p in pairs if y == 1]
  neg = [p for y, p in pairs if y == 0]
  if not pos or not neg:
    if not pos or not relative:
      return NAN
  if relative:
    s_neg = math.fsum(neg)
    if not pos or s_neg == 0:
      return NAN
    return (math.fsum(pos) / len(pos)) / (s_neg / len(neg))
  return math.fsum(pos) / len(pos) - math.fsum(neg) / len(neg)


def pearson(xs, ys, center=True):
  """Returns (value, well_conditioned)."""
  n = len(xs)
  if center:
    mx, my = math.fsum(xs) / n, math.fsum(ys) / n
    dx = [x - mx for x in xs]
    dy = [y - my for y in ys]
  else:
    dx, dy = list(xs), list(ys)
  sxx = math.fsum(a * a for a in dx)
  syy = math.fsum(b * b for b in dy)
  sxy = math.fsum(a * b for a, b in zip(dx, dy))
  if sxx <= 1e-9 or syy <= 1e-9:
    return NAN, False
  return sxy / math.sqrt(sxx * syy), True


def sym_pred_diff(pairs):
  if not pairs:
    return NAN
  return 2 * math.fsum(sdiv(abs(x - y), abs(x + y)) for x, y in pairs) / len(pairs)


# ----------------------------------------------------------------------------- text
def word_ngrams(texts, k, n, use_first_ngram_only, count_duplicate):
  counter = collections.Counter()
  for text in texts:
    words = re.sub(r'[^a-zA-Z ]+', '', text).lower().split()
    if len(words) < n:
      continue
    grams = [' '.join(words[i:i + n]) for i in range(len(words) - n + 1)]
    if use_first_ngram_only:
      grams = grams[:1]
    if not count_duplicate:
      grams = sorted(set(grams))
    counter.update(grams)
  res = [(g, sdiv(c, len(texts))) for g, c in counter.items()]
  res.sort(key=lambda x: (-x[1], x[0]))
  return res[:k]


def pattern_frequency(texts, patterns, count_duplicate):
  res = []
  for p in patterns:
    total = 0
    for t in texts:
      occ = sum(1 for i in range(len(t) - len(p) + 1) if t[i:i + len(p)] == p)
      total += occ if count_duplicate else (1 if occ else 0)
    res.append((p, sdiv(total, len(texts))))
  res.sort(key=lambda x: (-x[1], x[0]))
  return res


# ----------------------------------------------------------------------------- confusion matrix
def cm_counts(true_sets, pred_sets, classes):
  """Per-class (tp, tn, fp, fn) given per-example sets of true / predicted classes."""
  out = {}
  for c in classes:
    tp = tn = fp = fn = 0
    for t, p in zip(true_sets, pred_sets):
      it, ip = c in t, c in p
      if it and ip:
        tp += 1
      elif it:
        fn += 1
      elif ip:
        fp += 1
      else:
        tn += 1
    out[c] = (tp, tn, fp, fn)
  return out


def rate(metric, tp, tn, fp, fn):
  """Derived rates from the four counts (zero denominator -> 0 at every division)."""
  p, t = tp + fp, tp + fn
  tpr, tnr = sdiv(tp, t), sdiv(tn, tn + fp)
  fpr, fnr = sdiv(fp, fp + tn), sdiv(fn, fn + tp)
  ppv, npv = sdiv(tp, p), sdiv(tn, tn + fn)
  m = metric
  if m in ('precision', 'ppv', 'positive_predictive_value'):
    return ppv
  if m in ('recall', 'sensitivity', 'tpr'):
    return tpr
  if m == 'f1_score':
    return sdiv(2 * ppv * tpr, ppv + tpr)
  if m == 'binary_accuracy':
    return sdiv(tp + tn, tp + tn + fp + fn)
  if m in ('specificity', 'tnr'):
    return tnr
  if m in ('fall_out', 'fpr'):
    return fpr
  if m in ('miss_rate', 'fnr'):
    return fnr
  if m in ('negative_prediction_value', 'nvp'):
    return npv
  if m == 'false_discovery_rate':
    return sdiv(fp, p)
  if m == 'false_omission_rate':
    return sdiv(fn, fn + tn)
  if m in ('threat_score', 'intersection_over_union'):
    return sdiv(tp, tp + fn + fp)
  if m == 'positive_likelihood_ratio':
    return sdiv(tpr, fpr)
  if m == 'negative_likelihood_ratio':
    return sdiv(fnr, tnr)
  if m == 'diagnostic_odds_ratio':
    return sdiv(sdiv(tpr, fpr), sdiv(fnr, tnr))
  if m == 'prevalence':
    return sdiv(tp + fn, tp + tn + fp + fn)
  if m == 'prevalence_threshold':
    return sdiv(math.sqrt(tpr * (1 - tnr)) + tnr - 1, tpr + tnr - 1)
  if m == 'matthews_correlation_coefficient':
    return sdiv(tp * tn - fp * fn, math.sqrt((tp + fp) * (tp + fn) * (tn + fp) * (tn + fn)))
  if m == 'informedness':
    return tpr + tnr - 1
  if m == 'markedness':
    return ppv + npv - 1
  if m == 'balanced_accuracy':
    return (tpr + tnr) / 2
  if m == 'accuracy':
    return 1 if tp > 0 else 0
  raise KeyError(m)


RANGES = {
    **{m: (0.0, 1.0) for m in (
        'precision', 'ppv', 'positive_predictive_value', 'recall', 'sensitivity', 'tpr', 'f1_score',
        'binary_accuracy', 'specificity', 'tnr', 'fall_out', 'fpr', 'miss_rate', 'fnr',
        'negative_prediction_value', 'nvp', 'false_discovery_rate', 'false_omission_rate', 'threat_score',
        'intersection_over_union', 'prevalence', 'balanced_accuracy', 'accuracy')},
    'matthews_correlation_coefficient': (-1.0, 1.0), 'informedness': (-1.0, 1.0), 'markedness': (-1.0, 1.0),
}

ALIASES = [
    ('precision', 'ppv', 'positive_predictive_value'), ('recall', 'sensitivity', 'tpr'), ('specificity', 'tnr'),
    ('fall_out', 'fpr'), ('miss_rate', 'fnr'), ('negative_prediction_value', 'nvp'),
    ('threat_score', 'intersection_over_union'),
]


def confusion_metric(metric, average, true_sets, pred_sets, classes, pos_class=None):
  """average: 'binary' (pos_class only) | 'micro' (sum counts over classes) | 'macro' (mean over classes)."""
  counts = cm_counts(true_sets, pred_sets, classes)
  if average == 'binary':
    return rate(metric, *counts[pos_class])
  if average == 'micro':
    s = [sum(c[i] for c in counts.values()) for i in range(4)]
    return rate(metric, *s)
  if average == 'macro':
    return math.fsum(rate(metric, *counts[c]) for c in classes) / len(classes)
  raise KeyError(average)


def samplewise_metric(metric, true_sets, pred_sets, classes):
  """Per-example metric (counts taken across classes within one example); returns list of per-row values."""
  out = []
  for t, p in zip(true_sets, pred_sets):
    tp = sum(1 for c in classes if c in t and c in p)
    fn = sum(1 for c in classes if c in t and c not in p)
    fp = sum(1 for c in classes if c not in t and c in p)
    tn = sum(1 for c in classes if c not in t and c not in p)
    out.append(rate(metric, tp, tn, fp, fn))
  return out


# ----------------------------------------------------------------------------- retrieval
def retrieval_row(metric, true, pred, k):
  """Value of a retrieval metric for one example at cut-off k (k may exceed len(pred)).

  Conventions pinned by the upstream tests: precision-like denominators use min(k, |pred|); AP@k and the ideal DCG
  use min(k, |true|); threat score uses the raw k (missing predictions count as false positives).
  """
  rel = [1 if p in true else 0 for p in pred[:k]]
  tp = sum(rel)
  npred = min(k, len(pred))
  ntrue = len(true)
  prec, rec = tp / npred, tp / ntrue
  m = metric
  if m in ('precision', 'ppv', 'positive_predictive_value'):
    return prec
  if m in ('recall', 'sensitivity', 'tpr'):
    return rec
  if m == 'accuracy':
    return 1 if tp > 0 else 0
  if m == 'f1_score':
    return sdiv(2 * prec * rec, prec + rec)
  if m == 'intersection_over_union':
    return tp / (npred + ntrue - tp)
  if m == 'miss_rate':
    return 1 - rec
  if m == 'false_discovery_rate':
    return 1 - prec
  if m == 'threat_score':
    return tp / (ntrue - tp + k)
  if m == 'fowlkes_mallows_index':
    return math.sqrt(prec * rec)
  if m == 'mean_average_precision':
    s = math.fsum(sum(rel[:i + 1]) / (i + 1) for i in range(len(rel)) if rel[i])
    return s / min(k, ntrue)
  if m == 'mean_reciprocal_rank':
    for i, r in enumerate(rel):
      if r:
        return 1.0 / (i + 1)
    return 0.0
  if m == 'dcg_score':
    return math.fsum(1.0 / math.log2(i + 2) for i, r in enumerate(rel) if r)
  if m == 'ndcg_score':
    dcg = math.fsum(1.0 / math.log2(i + 2) for i, r in enumerate(rel) if r)
    ideal = math.fsum(1.0 / math.log2(i + 2) for i in range(min(k, ntrue)))
    return dcg / ideal
  raise KeyError(m)


RETRIEVAL_RANGES = {
    **{m: (0.0, 1.0) for m in (
        'precision', 'ppv', 'positive_predictive_value', 'recall', 'sensitivity', 'tpr', 'accuracy', 'f1_score',
        'intersection_over_union', 'miss_rate', 'false_discovery_rate', 'threat_score', 'fowlkes_mallows_index',
        'mean_average_precision', 'mean_reciprocal_rank', 'ndcg_score')},
    'dcg_score': (0.0, float('inf')),
}
RETRIEVAL_ALIASES = [('precision', 'ppv', 'positive_predictive_value'), ('recall', 'sensitivity', 'tpr')]


def thresholded_retrieval(rows, thresholds):
  """rows: (true ids, pred ids, probs). Returns dict precision/recall/f1 lists per (sorted) threshold."""
  out = {'precision': [], 'recall': [], 'f1_score': []}
  for th in sorted(thresholds):
    tp_true = tp_pred = p_true = p_pred = 0
    for true, pred, prob in rows:
      p_true += len(true)
      matched_true = {}
      for pid, pr in zip(pred, prob):
        if pr > th:
          p_pred += 1
        if pid in true:
          matched_true[pid] = pr
          if pr > th:
            tp_pred += 1
      tp_true += sum(1 for v in matched_true.values() if v > th)
    prec, rec = sdiv(tp_pred, p_pred), sdiv(tp_true, p_true)
    out['precision'].append(prec)
    out['recall'].append(rec)
    out['f1_score'].append(sdiv(2 * prec * rec, prec + rec))
  return out
