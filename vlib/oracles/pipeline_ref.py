"""Reference interpreter for select / apply / assign / filter / batch / sink programs (and group-by aggregation).

Programs are JSON: {"ops": [...]} with key specs
  "name" | "SELF" | "SKIP" | {"K": [comp, ...]} (Key path; comp = "name" or ["I", n]) | {"L": value} (Literal)
  | {"T": [spec, ...]} (tuple of keys) | {"D": [[name, spec], ...]} (dict: kwargs for inputs, renaming for outputs).
Written from the TreeTransform / TreeFn docstrings; independent of the implementation (uses tree_ref for paths).
"""
from __future__ import annotations

import copy

from vlib import targets
from vlib.oracles import tree_ref as tr


class RefError(Exception):
  """The reference interpreter cannot evaluate (a generator bug, never a violation)."""


def _path(spec):
  if spec in ('SELF', 'DEFAULT'):
    return []
  if isinstance(spec, str):
    return [('k', spec)]
  if 'K' in spec:
    return [('i', c[1]) if isinstance(c, list) else ('k', c) for c in spec['K']]
  raise RefError(f'not a path spec: {spec}')


def get_one(rec, spec):
  if isinstance(spec, dict) and 'L' in spec:
    return spec['L']
  return tr.ref_get(rec, _path(spec))


def as_tuple(spec):
  """normalize_keys: a tuple spec stays, anything else becomes a 1-tuple."""
  if isinstance(spec, dict) and 'T' in spec:
    return list(spec['T'])
  return [spec]


def get_inputs(rec, spec):
  """-> (args tuple, kwargs dict)."""
  if isinstance(spec, dict) and 'D' in spec:
    return (), {name: get_one(rec, s) for name, s in spec['D']}
  return tuple(get_one(rec, s) for s in as_tuple(spec)), {}


def set_outputs(base, spec, out):
  """Places a function result under the output key spec. base=tr.MISSING builds a fresh record (apply)."""
  keys = as_tuple(spec)
  outs = out if type(out) is tuple else (out,)  # pylint: disable=unidiomatic-typecheck
  if keys and keys[0] in ('SELF', 'DEFAULT') and len(outs) > 1:
    outs = (outs,)
  if len(keys) == 1 and len(outs) > 1:
    return _set(base, keys[0], outs)
  if len(keys) != len(outs):
    raise RefError(f'{len(keys)} output keys for {len(outs)} outputs')
  for k, o in zip(keys, outs):
    if isinstance(k, dict) and 'D' in k:
      for name, src in k['D']:
        base = _set(base, name, get_one(o, src))
    else:
      base = _set(base, k, o)
  return base


def _set(base, spec, value):
  if spec == 'SKIP':
    return base
  p = _path(spec)
  if not p:
    return value
  return tr.ref_set(base, p, value)


def fn_of(op):
  f = op.get('fn')
  if f is None:
    return None
  if isinstance(f, list) and f[0] == 'fail':
    return targets.FailOn(f[1], f[2], f[3])
  return targets.FNS[f]


def _op_gen(op, upstream, sink_data, skip_errors, skippable):
  kind = op['op']
  fn = fn_of(op)
  if kind == 'batch':
    n, keys = op['n'], op['keys']
    chunk = []

    def emit(chunk):
      if keys == 'SELF':
        return (chunk[0][0], [r for _, r in chunk])
      return (chunk[0][0], {k: [r[k] for _, r in chunk] for k in keys})
    for item in upstream:
      chunk.append(item)
      if len(chunk) == n:
        yield emit(chunk)
        chunk = []
    if chunk:
      yield emit(chunk)
    return
  for idx, rec in upstream:
    try:
      args, kw = get_inputs(rec, op['in'])
    except (KeyError, IndexError, TypeError) as e:
      raise RefFailure(idx, e) from e      # fetching inputs is outside the guarded function call: never skippable
    if kind == 'sink':
      sink_data.append(args[0] if len(args) == 1 else tuple(args))
      yield idx, rec
      continue
    if kind == 'select':
      yield idx, set_outputs(tr.MISSING, op.get('out') or op['in'], args)
      continue
    try:
      res = fn(*args, **kw)
    except Exception as e:  # pylint: disable=broad-exception-caught
      if skip_errors and isinstance(e, skippable):
        continue
      raise RefFailure(idx, e) from e
    if kind == 'apply':
      yield idx, set_outputs(tr.MISSING, op['out'], res)
    elif kind == 'assign':
      yield idx, set_outputs(rec, op['keys'], res)
    elif kind == 'filter':
      if res:
        yield idx, rec
    else:
      raise RefError(kind)


def run(prog, records, skip_errors=False, skippable=(ValueError, TypeError)):
  """Streaming reference run. Returns (outputs, sinks, failure).

  outputs: records delivered to the consumer (all of them, or those delivered before the first error);
  sinks: per sink op, the values it was given; failure: None or RefFailure(index of the failing input record, exc).
  With skip_errors a record whose *function call* raises a skippable error is dropped by that operator."""
  stream = ((i, copy.deepcopy(r)) for i, r in enumerate(records))
  sinks = []
  for op in prog['ops']:
    data = []
    if op['op'] == 'sink':
      sinks.append(data)
    stream = _op_gen(op, stream, data, skip_errors, skippable)
  outputs, failure, indices = [], None, []
  try:
    for i, r in stream:
      outputs.append(r)
      indices.append(i)
  except RefFailure as e:
    failure = e
  run.last_indices = indices
  return outputs, sinks, failure


class RefFailure(Exception):

  def __init__(self, index, exc):
    super().__init__(f'record {index}: {exc!r}')
    self.index, self.exc = index, exc
