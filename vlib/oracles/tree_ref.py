"""Reference get / set / leaf enumeration on nested dict / list / tuple / ndarray trees.

Written from the TreeMapView docstrings, deliberately naive. Paths are lists of components:
('k', key) for a mapping key (str or int) and ('i', n) for a sequence index.
Trees travel as JSON: {"d": [[key, sub], ...]} | {"l": [...]} | {"t": [...]} | {"a": [ints]} | {"v": scalar}.
"""
from __future__ import annotations

import copy

import numpy as np

MISSING = object()


def hkey(k):
  """Dict keys travel as JSON: a tuple key arrives as a list."""
  return tuple(k) if isinstance(k, list) else k


def npath(path):
  """Path from JSON -> list of (kind, key) tuples with hashable keys."""
  return [(c[0], hkey(c[1])) for c in path]


def decode(j):
  (tag, val), = j.items()
  if tag == 'd':
    return {hkey(k): decode(v) for k, v in val}
  if tag == 'l':
    return [decode(v) for v in val]
  if tag == 't':
    return tuple(decode(v) for v in val)
  if tag == 'a':
    return np.array(val, dtype=np.int64)
  if tag == 'av':      # an array that does not own its buffer: a slice of a longer array
    return np.array(list(val) + [77, 78], dtype=np.int64)[:len(val)]
  if tag == 'v':
    return val
  raise ValueError(j)


def is_container(x):
  return isinstance(x, (dict, list, tuple))


def ref_get(t, path):
  for kind, k in path:
    if kind == 'i':
      if not isinstance(t, (list, tuple, np.ndarray)):
        raise KeyError(path)
      t = t[k]
    else:
      if not isinstance(t, dict):
        raise KeyError(path)
      t = t[k]
  return t


def _default(path, v):
  if not path:
    return v
  (kind, k), rest = path[0], path[1:]
  if kind == 'i':
    assert k == 0
    return [_default(rest, v)]
  return {k: _default(rest, v)}


def ref_set(t, path, v):
  """Copy-on-write set: returns a new tree; shares every untouched subtree with t."""
  if not path:
    return v
  (kind, k), rest = path[0], path[1:]
  if t is MISSING:
    return _default(path, v)
  if isinstance(t, dict):
    assert kind == 'k'
    new = dict(t)
    new[k] = ref_set(t.get(k, MISSING), rest, v)
    return new
  if isinstance(t, (list, tuple)):
    assert kind == 'i'
    new = list(t)
    if k == len(new):
      new.append(ref_set(MISSING, rest, v))
    else:
      new[k] = ref_set(new[k], rest, v)
    return tuple(new) if isinstance(t, tuple) else new
  if isinstance(t, np.ndarray):
    assert kind == 'i' and not rest
    new = t.copy()
    new[k] = v
    return new
  raise TypeError(f'cannot set into leaf {t!r}')


def leaves(t, prefix=()):
  """All (path, leaf) pairs, DFS order. Empty containers and ndarrays are leaves."""
  if isinstance(t, dict) and t:
    for k, v in t.items():
      yield from leaves(v, prefix + (('k', k),))
  elif isinstance(t, (list, tuple)) and t:
    for i, v in enumerate(t):
      yield from leaves(v, prefix + (('i', i),))
  else:
    yield prefix, t


def nodes(t, prefix=()):
  """All (path, node) pairs including inner nodes and the root."""
  yield prefix, t
  if isinstance(t, dict):
    for k, v in t.items():
      yield from nodes(v, prefix + (('k', k),))
  elif isinstance(t, (list, tuple)):
    for i, v in enumerate(t):
      yield from nodes(v, prefix + (('i', i),))


def share(t, i, j):
  """Makes the same container object appear at two paths of t (in place; t is harness-built): the i-th non-empty inner
  dict / list (DFS order) also replaces the j-th one, unless one contains the other. Returns True if something was shared."""
  inner = [(p, n) for p, n in nodes(t) if p and isinstance(n, (dict, list)) and len(n)]
  if len(inner) < 2:
    return False
  (pa, a), (pb, _) = inner[i % len(inner)], inner[j % len(inner)]
  if pa == pb or pa[:len(pb)] == pb or pb[:len(pa)] == pa:
    return False
  parent = ref_get(t, pb[:-1])
  if isinstance(parent, tuple):
    return False
  parent[pb[-1][1]] = a
  return True


def deep_equal(a, b):
  if isinstance(a, np.ndarray) or isinstance(b, np.ndarray):
    return (isinstance(a, np.ndarray) and isinstance(b, np.ndarray) and a.dtype == b.dtype
            and a.shape == b.shape and bool(np.array_equal(a, b)))
  if type(a) is not type(b):
    return False
  if isinstance(a, dict):
    return list(a.keys()) == list(b.keys()) and all(deep_equal(a[k], b[k]) for k in a)
  if isinstance(a, (list, tuple)):
    return len(a) == len(b) and all(deep_equal(x, y) for x, y in zip(a, b))
  if isinstance(a, float) and a != a:
    return b != b
  return a == b


def snapshot(t):
  return copy.deepcopy(t)


def related(p, q):
  """True if one path is a prefix of the other."""
  n = min(len(p), len(q))
  return tuple(p[:n]) == tuple(q[:n])
