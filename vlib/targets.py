"""Importable callables used inside generated pipelines and lazy expressions (cloudpickle pickles by reference)."""
from __future__ import annotations

import threading

CALLS = {}
_LOCK = threading.Lock()


def _count(name):
  with _LOCK:
    CALLS[name] = CALLS.get(name, 0) + 1


def reset_calls():
  with _LOCK:
    CALLS.clear()


def add1(x):
  return x + 1


def neg(x):
  return -x


def ident(x):
  return x


def add(x, y):
  return x + y


def mul(x, y):
  return x * y


def pair(x):
  return (x, x * 2)


def triple(x):
  return (x, x + 1, x + 2)


def as_dict(x):
  return {'u': x, 'v': x + 10}


def kw_sub(p, q):
  return p - q


def is_even(x):
  return x % 2 == 0


def gt2(x):
  return x > 2


def always(x):
  return True


def never(x):
  return False


def count_keys(record):
  return len(record)


def const7():
  return 7


FNS = {f.__name__: f for f in (add1, neg, ident, add, mul, pair, triple, as_dict, kw_sub, is_even, gt2, always, never,
                               count_keys, const7)}
# name -> (arity or 'kw' or 'self', result type)
SIG = {
    'add1': (1, 'int'), 'neg': (1, 'int'), 'ident': (1, 'int'), 'add': (2, 'int'), 'mul': (2, 'int'),
    'pair': (1, 'pair'), 'triple': (1, 'triple'), 'as_dict': (1, 'dict_uv'), 'kw_sub': ('kw', 'int'),
    'count_keys': ('self', 'int'), 'is_even': (1, 'bool'), 'gt2': (1, 'bool'), 'always': (1, 'bool'), 'never': (1, 'bool'),
}


class FailOn:
  """Wraps a function so that it raises `exc` when its first argument is in `values` (picklable, counts calls)."""

  def __init__(self, name, values, exc='ValueError'):
    self.name, self.values, self.exc = name, tuple(values), exc

  def __call__(self, *args, **kwargs):
    first = args[0] if args else next(iter(kwargs.values()))
    if isinstance(first, (list, tuple)):   # batched column: fails if any element is poisoned
      hit = [v for v in first if v in self.values]
    else:
      hit = [first] if first in self.values else []
    if hit:
      raise EXC[self.exc](f'injected failure on {hit[0]}')
    return FNS[self.name](*args, **kwargs)

  def __repr__(self):
    return f'FailOn({self.name}, {self.values}, {self.exc})'


class InjectedError(Exception):
  """A non-skippable application error."""


EXC = {'ValueError': ValueError, 'TypeError': TypeError, 'KeyError': KeyError, 'RuntimeError': RuntimeError,
       'InjectedError': InjectedError, 'ZeroDivisionError': ZeroDivisionError, 'TimeoutError': TimeoutError}


class ListSink:
  """A SinkT that records what it was given."""

  def __init__(self):
    self.data = []
    self.closed = 0

  def write(self, *data):
    self.data.append(data[0] if len(data) == 1 else tuple(data))

  def close(self):
    self.closed += 1


class SumAgg:
  """A user AggregateFn with exact integer arithmetic: (sum, count, min-index-free) over one or more columns."""

  def create_state(self):
    return [0, 0]

  def update_state(self, state, *cols):
    state = list(state)
    for c in cols:
      state[0] += int(sum(int(x) for x in c))
    state[1] += len(cols[0])
    return state

  def merge_states(self, states):
    out = [0, 0]
    for s in states:
      out[0] += s[0]
      out[1] += s[1]
    return out

  def get_result(self, state):
    return (state[0], state[1])


class HalfSumAgg(SumAgg):
  """SumAgg in units of one half: exact for columns holding integers and k + 0.5 values (e.g. a fractional fill value)."""

  def update_state(self, state, *cols):
    state = list(state)
    for c in cols:
      state[0] += sum(int(round(float(x) * 2)) for x in c)
    state[1] += len(cols[0])
    return state


class RowSum:
  """Exact row-wise aggregate: (sum of all given scalar inputs, number of rows)."""

  def create_state(self):
    return [0, 0]

  def update_state(self, state, *vals):
    return [state[0] + sum(int(v) for v in vals), state[1] + 1]

  def merge_states(self, states):
    out = [0, 0]
    for s in states:
      out[0] += s[0]
      out[1] += s[1]
    return out

  def get_result(self, state):
    return (state[0], state[1])


class RowMin:
  """A user aggregate whose state is a bare number: the smallest value seen (10**9 before any row). A partial state of
  exactly 0 is an ordinary value here, not the neutral element."""

  def create_state(self):
    return 10**9

  def update_state(self, state, val):
    return min(state, int(val))

  def merge_states(self, states):
    return min([10**9] + list(states))

  def get_result(self, state):
    return state


class RowCount:
  """A user aggregate whose state is a plain int: the number of rows (equal shards give equal, interned, states)."""

  def create_state(self):
    return 0

  def update_state(self, state, val):
    return state + 1

  def merge_states(self, states):
    return sum(states)

  def get_result(self, state):
    return state


class Counting:
  """Stateful callable for lazy-expression tests: counts constructions and calls."""
  constructed = 0

  def __init__(self, base=0):
    type(self).constructed += 1
    _count('Counting.__init__')
    self.base = base
    self.hits = 0
    self._base2 = base * 2      # a conventional single-underscore attribute (like namedtuple's _fields / _asdict)
    self.items = {'k': base, 'l': [base, base + 1]}

  def bump(self, by=1):
    _count('Counting.bump')
    self.hits += by
    return self.base + self.hits

  def get(self):
    return self.hits

  def __call__(self, x):
    _count('Counting.__call__')
    return self.base + x

  def __getitem__(self, k):
    return self.items[k]

  def raiser(self, msg):
    raise ValueError(msg)

  def gen(self, n):
    for i in range(n):
      yield self.base + i
    return 'ret'


def make_counting(base=0):
  _count('make_counting')
  return Counting(base)


def make_lazy_counting(base=0):
  """A factory that hands back a *lazy* object (the traced constructor call): evaluation resolves it to the instance."""
  _count('make_lazy_counting')
  from ml_metrics._src.chainables import lazy_fns  # pylint: disable=g-import-not-at-top
  return lazy_fns.trace(Counting)(base)


def counted_add(x, y=0):
  _count('counted_add')
  return x + y


def kw_names(**kw):
  """Result depends on the order in which the keywords were given: [[name, value], ...]."""
  _count('kw_names')
  return [[k, v] for k, v in kw.items()]


def counted_arr_sum(arr, k=0):
  """A call with a (multi-element) numpy array argument."""
  _count('counted_arr_sum')
  return int(arr.sum()) + k


def counted_len(x):
  """len of a str / bytes / list argument (the argument must arrive as it was given)."""
  _count('counted_len')
  return [type(x).__name__, len(x)]


def counted_describe(x):
  """A counted call that hands its argument back (the argument may be a held object or a traced constant)."""
  _count('counted_describe')
  return ['described', x]


def counted_list(n):
  _count('counted_list')
  return [n, n + 1]


FALSY = [None, 0, '', (), False]


def counted_falsy(n):
  """A counted call whose result is one of the falsy values (a cached / held value may be None, 0, '' ...)."""
  _count('counted_falsy')
  return FALSY[n % len(FALSY)]


def raise_value_error(msg):
  _count('raise_value_error')
  raise ValueError(msg)


def raise_stop_iteration(msg):
  """What next() of an exhausted iterator does: an exception that iteration protocols treat as 'end of input'."""
  _count('raise_stop_iteration')
  raise StopIteration(msg)


def raise_timeout_error(msg):
  """The application's own TimeoutError (not a transport deadline)."""
  _count('raise_timeout_error')
  raise TimeoutError(msg)


_LOCK_ONCE = threading.Lock()
GATES = {}      # gate id -> (started: threading.Event, release: threading.Event)


def gated_raise(gate, kind, msg):
  """Signals that it runs, waits until the harness releases it, then raises (or returns msg for kind == 'value')."""
  started, release = GATES[gate]
  started.set()
  release.wait(20)
  if kind == 'value':
    return msg
  raise {'ValueError': ValueError, 'RuntimeError': RuntimeError, 'KeyError': KeyError}[kind](msg)


def raise_key_error(msg):
  _count('raise_key_error')
  raise KeyError(msg)


def gen_failing_with(n, fail_at, exc, msg, ret='R', tag='A'):
  """Like gen_range, the failure is exc(msg)."""
  for i in range(n):
    if i == fail_at:
      raise EXC[exc](msg)
    yield (tag, i)
  if fail_at is not None and fail_at >= n:
    raise EXC[exc](msg)
  return ret


def gen_range(n, fail_at=None, ret='R', tag='A'):
  for i in range(n):
    if i == fail_at:
      raise KeyError(f'fail at {i}')
    yield (tag, i)
  return ret
