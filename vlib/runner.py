"""Check runner: seed plumbing, process sharding, evidence, VIOLATION / KNOWN-FINDING lines.

  python -m vlib.runner <PROP> --tier quick|thorough [--replay FILE] [--scenario NAME] [--scale F]

Exit codes: 0 held on everything explored; 1 VIOLATION line(s) printed; 2 harness error.

A property module `props/<prop lower>.py` defines
  PROPERTY, LEVEL, RULE, ASSUMPTIONS, SCENARIOS (list of vlib.core.Scenario),
  optionally KNOWN = {finding_id: predicate(scenario_name, case, violation) -> bool}.
"""
from __future__ import annotations

import argparse
import hashlib
import importlib
import json
import os
import shutil
import subprocess
import sys
import tempfile
import time

HERE = os.path.dirname(os.path.dirname(os.path.abspath(__file__)))
PY = sys.executable
NPROC = int(os.environ.get('VERIF_NPROC', '16'))


def derive_seed(*parts) -> int:
  h = hashlib.sha256(':'.join(str(p) for p in parts).encode()).hexdigest()
  return int(h[:12], 16)


def load_known():
  path = os.path.join(HERE, 'known_findings.json')
  if not os.path.exists(path):
    return []
  with open(path) as f:
    return json.load(f)['findings']


def _unit_cmd(spec_path):
  return [PY, '-m', 'vlib.unit', spec_path]


def run_units(specs, workdir, timeout_s):
  """Runs unit specs in up to NPROC subprocesses. Returns list of result dicts."""
  pending = list(enumerate(specs))
  running = {}
  results = [None] * len(specs)
  t_start = {}
  while pending or running:
    while pending and len(running) < NPROC:
      i, spec = pending.pop(0)
      sp = os.path.join(workdir, f'unit{i}.spec.json')
      spec = dict(spec, out=os.path.join(workdir, f'unit{i}.out.json'))
      with open(sp, 'w') as f:
        json.dump(spec, f)
      log = open(os.path.join(workdir, f'unit{i}.log'), 'w')
      p = subprocess.Popen(_unit_cmd(sp), stdout=log, stderr=subprocess.STDOUT,
                           cwd=HERE, env=os.environ.copy())
      running[i] = (p, spec, log)
      t_start[i] = time.time()
    time.sleep(0.05)
    for i in list(running):
      p, spec, log = running[i]
      rc = p.poll()
      if rc is None:
        if time.time() - t_start[i] > timeout_s:
          p.kill()
          p.wait()
          log.close()
          results[i] = {'harness_error': f'unit timed out after {timeout_s}s',
                        'spec': spec, 'log': _tail(log.name)}
          del running[i]
        continue
      log.close()
      del running[i]
      if os.path.exists(spec['out']):
        with open(spec['out']) as f:
          results[i] = json.load(f)
        if rc != 0 and 'harness_error' not in results[i]:
          results[i]['harness_error'] = f'unit exit code {rc}'
          results[i]['log'] = _tail(log.name)
      else:
        results[i] = {'harness_error': f'unit produced no output (rc={rc})',
                      'spec': spec, 'log': _tail(log.name)}
  return results


def _tail(path, n=40):
  try:
    with open(path) as f:
      return ''.join(f.readlines()[-n:])
  except OSError:
    return ''


def run_single(prop, scenario, case, workdir, timeout_s=600, tag='single'):
  """Run one case in a fresh process; returns result dict (violation or ok)."""
  spec = {'mode': 'single', 'prop': prop, 'scenario': scenario, 'case': case}
  sp = os.path.join(workdir, f'{tag}.spec.json')
  spec['out'] = os.path.join(workdir, f'{tag}.out.json')
  if os.path.exists(spec['out']):
    os.unlink(spec['out'])
  with open(sp, 'w') as f:
    json.dump(spec, f)
  logp = os.path.join(workdir, f'{tag}.log')
  with open(logp, 'w') as log:
    try:
      rc = subprocess.run(_unit_cmd(sp), stdout=log, stderr=subprocess.STDOUT,
                          cwd=HERE, timeout=timeout_s).returncode
    except subprocess.TimeoutExpired:
      return {'harness_error': 'single-case run timed out'}
  if not os.path.exists(spec['out']):
    return {'harness_error': f'no output rc={rc}', 'log': _tail(logp)}
  with open(spec['out']) as f:
    return json.load(f)


def main(argv=None):
  ap = argparse.ArgumentParser()
  ap.add_argument('prop')
  ap.add_argument('--tier', default=os.environ.get('VERIF_TIER', 'quick'),
                  choices=['quick', 'thorough'])
  ap.add_argument('--replay')
  ap.add_argument('--scenario', action='append')
  ap.add_argument('--scale', type=float, default=float(os.environ.get('VERIF_SCALE', '1')))
  ap.add_argument('--no-evidence', action='store_true')
  ap.add_argument('--only-fuzz', action='store_true', help='development: run only the coverage-guided units (implies --no-evidence)')
  args = ap.parse_args(argv)
  prop = args.prop.upper()
  seed = int(os.environ.get('VERIF_SEED', '1') or '1')
  t0 = time.time()
  workdir = tempfile.mkdtemp(prefix=f'verif_{prop}_')
  try:
    return _main(args, prop, seed, t0, workdir)
  finally:
    shutil.rmtree(workdir, ignore_errors=True)


def _main(args, prop, seed, t0, workdir):
  try:
    mod = importlib.import_module(f'props.{prop.lower()}')
  except Exception as e:  # pylint: disable=broad-exception-caught
    import traceback
    traceback.print_exc()
    print(f'HARNESS-ERROR property={prop} cannot import property module: {e}')
    return 2
  scen_by_name = {s.name: s for s in mod.SCENARIOS}

  if args.replay:
    with open(args.replay) as f:
      rp = json.load(f)
    res = run_single(prop, rp['scenario'], rp['case'], workdir)
    if 'harness_error' in res:
      print(f'HARNESS-ERROR property={prop} {res["harness_error"]}\n{res.get("log", "")}')
      return 2
    if res.get('violation'):
      print(f'replayed: {res["violation"]["kind"]}: {res["violation"]["msg"][:2000]}')
      print(f'VIOLATION property={prop} replay={args.replay}')
      return 1
    print(f'replay passes: property={prop} scenario={rp["scenario"]}')
    return 0

  known = [k for k in load_known() if k['property'] == prop]
  open_known = [k for k in known if k['status'] == 'open']

  # ---- plan units
  specs = []
  for s in mod.SCENARIOS:
    if (args.scenario and s.name not in args.scenario) or args.only_fuzz:
      continue
    n = s.budget[args.tier]
    n = max(1, int(n * args.scale))
    shards = s.shards.get(args.tier, 1) if isinstance(s.shards, dict) else s.shards
    shards = max(1, shards if s.enumerate is not None else min(shards, n))
    for sh in range(shards):
      specs.append({
          'mode': 'explore', 'prop': prop, 'scenario': s.name, 'tier': args.tier,
          'seed': derive_seed(seed, prop, s.name, sh), 'shard': sh, 'nshards': shards,
          'n': (n + shards - 1) // shards,
      })
  # supplementary coverage-guided campaigns (atheris), one libFuzzer process per shard with its own corpus directory
  for s in mod.SCENARIOS:
    if args.scenario and s.name not in args.scenario:
      continue
    runs = (s.fuzz_runs or {}).get(args.tier, 0)
    if runs:
      nsh = 4 if args.tier == 'quick' else 12
      for sh in range(nsh):
        specs.append({'mode': 'fuzz', 'prop': prop, 'scenario': s.name, 'tier': args.tier,
                      'seed': derive_seed(seed, prop, s.name, 'fuzz', sh), 'shard': sh, 'nshards': nsh,
                      'runs': max(1, int(runs * args.scale) // nsh), 'instrument': list(s.instrument)})
  # regressions + known-finding probes, each in a fresh process
  regress_dir = os.path.join(HERE, 'regress', prop)
  regress = []
  if os.path.isdir(regress_dir):
    for fn in sorted(os.listdir(regress_dir)):
      if fn.endswith('.json'):
        with open(os.path.join(regress_dir, fn)) as f:
          r = json.load(f)
        r['file'] = os.path.join('regress', prop, fn)
        regress.append(r)
  for r in regress:
    if args.scenario and r['scenario'] not in args.scenario:
      continue
    specs.append({'mode': 'single', 'prop': prop, 'scenario': r['scenario'],
                  'case': r['case'], 'regress_file': r['file'],
                  'expect': r.get('expect', 'pass')})
  for k in open_known:
    specs.append({'mode': 'single', 'prop': prop, 'scenario': k['scenario'],
                  'case': k['probe'], 'known_id': k['id'], 'expect': 'known',
                  'no_known_filter': True})

  unit_timeout = float(os.environ.get('VERIF_UNIT_TIMEOUT', '1500' if args.tier == 'quick' else '7200'))
  results = run_units(specs, workdir, unit_timeout)

  # ---- merge
  herr = [r for r in results if 'harness_error' in r]
  if herr:
    for r in herr[:3]:
      print(f'HARNESS-ERROR property={prop} {r["harness_error"]} '
            f'spec={json.dumps({k: v for k, v in r.get("spec", {}).items() if k != "case"})[:300]}')
      print(r.get('log', '')[-3000:])
      if r.get('traceback'):
        print(r['traceback'][-3000:])
    return 2

  evaluations = 0
  nontrivial = set()
  classes = {}
  samples = []
  per_scenario = {}
  excluded_known = {}
  inconclusive = 0
  failures = []   # (scenario, case, violation)
  known_lines = []
  exhaustive_flags = []
  extra = {}
  regress_run = 0
  for spec, r in zip(specs, results):
    if spec['mode'] == 'single':
      regress_run += 1
      evaluations += 1
      v = r.get('violation')
      if spec['expect'] == 'known':
        k = next(k for k in open_known if k['id'] == spec['known_id'])
        if v:
          known_lines.append(f'KNOWN-FINDING: property={prop} {k["id"]}: {k["what"]}')
        else:
          print(f'NOTE property={prop} known finding {k["id"]} no longer reproduces '
                f'(probe passes) - update known_findings.json')
      else:
        if v:
          failures.append((spec['scenario'], spec['case'], v, spec.get('regress_file')))
      continue
    evaluations += r['evaluations']
    nontrivial.update((spec['scenario'], h) for h in r['nontrivial_hashes'])
    for c, n in r['classes'].items():
      classes[c] = classes.get(c, 0) + n
    ps = per_scenario.setdefault(spec['scenario'], {'evaluations': 0, 'nontrivial': 0, 'samples': 0})
    ps['evaluations'] += r['evaluations']
    if ps['samples'] < 3 and r['samples']:
      take = r['samples'][: 3 - ps['samples']]
      samples.extend({'scenario': spec['scenario'], 'case': c} for c in take)
      ps['samples'] += len(take)
    for k, n in r.get('excluded_known', {}).items():
      excluded_known[k] = excluded_known.get(k, 0) + n
    inconclusive += r.get('inconclusive', 0)
    if r.get('exhaustive') is not None:
      exhaustive_flags.append(bool(r['exhaustive']))
    for k, v in r.get('extra', {}).items():
      if isinstance(v, (int, float)):
        extra[k] = extra.get(k, 0) + v
    if r.get('failure'):
      failures.append((spec['scenario'], r['failure']['case'], r['failure']['violation'], None))
  for (sc, _h) in nontrivial:
    per_scenario[sc]['nontrivial'] += 1

  # ---- confirm failures from their case description (fresh process), bucket by scenario+kind
  violations = []
  seen_bucket = set()
  unreproduced = 0
  harness_unrepro = []
  for sc, case, v, regfile in failures:
    bucket = (sc, v['kind'])
    if bucket in seen_bucket:
      continue
    s = scen_by_name[sc]
    tries = s.confirm_tries if s.nondeterministic else 1
    confirmed = None
    for t in range(tries):
      res = run_single(prop, sc, case, workdir, tag=f'confirm{len(seen_bucket)}_{t}')
      if 'harness_error' in res:
        print(f'HARNESS-ERROR property={prop} confirming failure: {res["harness_error"]}\n{res.get("log","")}')
        return 2
      if res.get('violation'):
        confirmed = res['violation']
        break
    if confirmed is None:
      if s.nondeterministic:
        unreproduced += 1
        print(f'WARNING property={prop} scenario={sc}: a failure ({v["kind"]}) did not reproduce in {tries} reruns; '
              f'counted as inconclusive: {v["msg"][:700]}')
        continue
      # a deterministic scenario whose failure does not replay from its case description: state leaked between cases of one
      # process. Not a violation; remembered, and a harness error unless another failure is confirmed.
      harness_unrepro.append(f'scenario={sc}: failure does not reproduce from its case description: {v["kind"]}: {v["msg"][:500]}')
      seen_bucket.add(bucket)
      continue
    seen_bucket.add(bucket)
    os.makedirs(os.path.join(HERE, 'replays'), exist_ok=True)
    if regfile:
      path = regfile
    else:
      h = hashlib.sha256(json.dumps(case, sort_keys=True).encode()).hexdigest()[:10]
      path = os.path.join('replays', f'{prop}_{sc}_{h}.json')
      with open(os.path.join(HERE, path), 'w') as f:
        json.dump({'property': prop, 'scenario': sc, 'case': case, 'violation': confirmed,
                   'seed': seed, 'tier': args.tier}, f, indent=1, sort_keys=True)
    violations.append((path, sc, confirmed))

  wall = time.time() - t0
  exhaustive = bool(exhaustive_flags) and all(exhaustive_flags) and not any(
      s.budget.get(args.tier) and s.strategy is not None
      for s in mod.SCENARIOS if not (args.scenario and s.name not in args.scenario))
  cov = {
      'evaluations': evaluations,
      'distinct_nontrivial': len(nontrivial),
      'rule': mod.RULE,
      'samples': samples[:12],
      'classes': dict(sorted(classes.items())),
      'per_scenario': per_scenario,
      'excluded_known': excluded_known,
      'inconclusive': inconclusive + unreproduced,
      'regressions_replayed': regress_run,
      'exhaustive': exhaustive,
      'exhaustive_scenarios': sorted(
          spec['scenario'] for spec, r in zip(specs, results)
          if spec['mode'] == 'explore' and r.get('exhaustive') and spec['shard'] == 0),
  }
  cov.update(extra)
  ev = {
      'property_id': prop, 'tier': args.tier, 'seed': seed, 'level': mod.LEVEL,
      'coverage': cov, 'assumptions': list(mod.ASSUMPTIONS), 'wall_s': round(wall, 2),
      'violations': len(violations),
      'known_findings_reproduced': [l for l in known_lines],
  }
  if not args.no_evidence and not args.scenario and not args.only_fuzz:
    os.makedirs(os.path.join(HERE, 'evidence'), exist_ok=True)
    tmp = os.path.join(HERE, 'evidence', f'.{prop}.json.tmp')
    with open(tmp, 'w') as f:
      json.dump(ev, f, indent=1, sort_keys=True, default=str)
    os.replace(tmp, os.path.join(HERE, 'evidence', f'{prop}.json'))

  for l in known_lines:
    print(l)
  print(f'{prop} tier={args.tier} seed={seed} evaluations={evaluations} '
        f'distinct_nontrivial={len(nontrivial)} excluded_known={excluded_known} '
        f'inconclusive={inconclusive + unreproduced} wall={wall:.1f}s')
  for sc, ps in per_scenario.items():
    print(f'  scenario {sc}: evaluations={ps["evaluations"]} nontrivial={ps["nontrivial"]}')
  if extra.get('fuzz_execs') or extra.get('fuzz_unavailable'):
    print('  coverage-guided (atheris, supplementary): ' + ' '.join(f'{k}={v}' for k, v in sorted(extra.items()) if k.startswith('fuzz_')))
  if violations:
    for path, sc, v in violations:
      print(f'  [{sc}] {v["kind"]}: {v["msg"][:1500]}')
      print(f'VIOLATION property={prop} replay={path}')
    for m in harness_unrepro:
      print(f'WARNING property={prop} {m}')
    return 1
  if harness_unrepro:
    for m in harness_unrepro:
      print(f'HARNESS-ERROR property={prop} {m}')
    return 2
  return 0


if __name__ == '__main__':
  sys.exit(main())
