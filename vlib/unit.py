"""Unit executor: one (scenario, shard) exploration or one single case, in a fresh process."""
from __future__ import annotations

import importlib
import json
import logging as pylogging
import os
import sys
import time
import traceback
import warnings


def _quiet():
  warnings.simplefilter('ignore')
  try:
    from absl import logging as alog  # pylint: disable=g-import-not-at-top
    alog.set_verbosity(alog.FATAL)
    alog.set_stderrthreshold('fatal')
    pylogging.getLogger('absl').setLevel(pylogging.CRITICAL + 1)
  except Exception:  # pylint: disable=broad-exception-caught
    pass
  pylogging.disable(pylogging.CRITICAL)


def _known_filter(mod, prop):
  from vlib import runner  # pylint: disable=g-import-not-at-top
  preds = getattr(mod, 'KNOWN', {})
  active = [k['id'] for k in runner.load_known() if k['property'] == prop and k['status'] == 'open']
  return {k: preds[k] for k in active if k in preds}


def run_single(spec, mod, scen):
  from vlib.core import Violation, Inconclusive  # pylint: disable=g-import-not-at-top
  out = {'evaluations': 1}
  try:
    info = scen.run(spec['case'])
    out['info'] = {k: v for k, v in (info or {}).items() if k in ('nontrivial', 'classes')}
  except Violation as v:
    out['violation'] = v.to_json()
  except Inconclusive as e:
    out['inconclusive'] = 1
    out['note'] = str(e)
  return out


class _StopUnit(BaseException):
  """A watchdog-detected hang leaves live threads of the code under test behind: stop this unit, do not shrink in it."""


def run_explore(spec, mod, scen):
  import hypothesis  # pylint: disable=g-import-not-at-top
  from hypothesis import given, settings, HealthCheck, Phase  # pylint: disable=g-import-not-at-top
  from vlib.core import Violation, Inconclusive, case_hash  # pylint: disable=g-import-not-at-top

  tier = spec['tier']
  known = _known_filter(mod, spec['prop'])
  st = {
      'evaluations': 0, 'nontrivial_hashes': set(), 'classes': {}, 'samples': [],
      'excluded_known': {}, 'inconclusive': 0, 'failing': {}, 'last_fail': None,
      't_first_fail': None, 'extra': {},
  }
  shrink_budget = scen.shrink_s.get(tier, 60.0)

  def execute(case):
    h = case_hash(case)
    if st['t_first_fail'] is not None:
      # Bounded shrinking: after the budget, only re-run cases already known to fail.
      if time.time() - st['t_first_fail'] > shrink_budget and h not in st['failing']:
        return
    st['evaluations'] += 1
    try:
      info = scen.run(case) or {}
    except Inconclusive:
      st['inconclusive'] += 1
      return
    except Violation as v:
      for kid, pred in known.items():
        try:
          hit = pred(scen.name, case, v)
        except Exception:  # pylint: disable=broad-exception-caught
          hit = False
        if hit:
          st['excluded_known'][kid] = st['excluded_known'].get(kid, 0) + 1
          return
      st['failing'][h] = True
      st['last_fail'] = (case, v.to_json())
      if st['t_first_fail'] is None:
        st['t_first_fail'] = time.time()
      if v.kind == 'hang':
        raise _StopUnit() from None
      raise
    for c in info.get('classes', ()):
      st['classes'][c] = st['classes'].get(c, 0) + 1
    for k, v in info.get('extra', {}).items():
      st['extra'][k] = st['extra'].get(k, 0) + v
    if info.get('nontrivial'):
      if h not in st['nontrivial_hashes']:
        st['nontrivial_hashes'].add(h)
        if len(st['samples']) < 3:
          st['samples'].append(case)

  exhaustive = None
  if scen.enumerate is not None:
    exhaustive = True
    for i, case in enumerate(scen.enumerate(tier)):
      if i % spec['nshards'] != spec['shard']:
        continue
      try:
        execute(case)
      except (Violation, _StopUnit):
        break
  else:
    phases = [Phase.explicit, Phase.generate, Phase.shrink]
    sett = settings(
        max_examples=spec['n'], database=None, deadline=None, derandomize=False,
        report_multiple_bugs=False, phases=phases, print_blob=False,
        suppress_health_check=list(HealthCheck), verbosity=hypothesis.Verbosity.quiet)

    @hypothesis.seed(spec['seed'])
    @sett
    @given(scen.strategy(tier))
    def test(case):
      execute(case)

    try:
      test()
    except (Violation, _StopUnit):
      pass
    except hypothesis.errors.Flaky as e:  # nondeterministic scenario: keep the recorded failure
      if st['last_fail'] is None:
        raise
      st['flaky'] = str(e)[:300]

  out = {
      'evaluations': st['evaluations'],
      'nontrivial_hashes': sorted(st['nontrivial_hashes']),
      'classes': st['classes'], 'samples': st['samples'],
      'excluded_known': st['excluded_known'], 'inconclusive': st['inconclusive'],
      'exhaustive': exhaustive, 'extra': st['extra'],
  }
  if st['last_fail'] is not None:
    out['failure'] = {'case': st['last_fail'][0], 'violation': st['last_fail'][1]}
  return out


def run_fuzz(spec):
  """Runs the atheris child; returns its statistics in the shape of an explore result (execs reported separately)."""
  import re  # pylint: disable=g-import-not-at-top
  import subprocess  # pylint: disable=g-import-not-at-top
  work = os.path.dirname(spec['out'])
  cspec = dict(spec, stats=spec['out'] + '.fuzzstats', corpus=os.path.join(work, f'corpus_{spec["scenario"]}_{spec["shard"]}'))
  sp = spec['out'] + '.fuzzspec'
  with open(sp, 'w') as f:
    json.dump(cspec, f)
  env = dict(os.environ)
  deps = os.path.join(os.path.dirname(os.path.dirname(os.path.abspath(__file__))), '.deps')
  env['PYTHONPATH'] = deps + os.pathsep + env.get('PYTHONPATH', '')
  try:
    p = subprocess.run([sys.executable, '-m', 'vlib.fuzz_child', sp], capture_output=True, text=True, env=env,
                       timeout=spec.get('timeout', 3000))
    rc, err = p.returncode, p.stderr
  except subprocess.TimeoutExpired as e:
    rc, err = -9, (e.stderr or b'').decode() if isinstance(e.stderr, bytes) else (e.stderr or '')
  stats = {}
  if os.path.exists(cspec['stats']):
    with open(cspec['stats']) as f:
      stats = json.load(f)
  out = {'evaluations': 0, 'nontrivial_hashes': [], 'classes': {}, 'samples': [], 'excluded_known': stats.get('excluded_known', {}),
         'inconclusive': 0,
         'exhaustive': None, 'extra': {'fuzz_execs': stats.get('execs', 0), 'fuzz_cases_decoded': stats.get('decoded', 0),
                                       'fuzz_nontrivial_cases': stats.get('nontrivial', 0)}}
  m = re.findall(r'cov: (\d+) ft: (\d+)', err)
  if m:
    out['extra']['fuzz_features'] = int(m[-1][1])
  if stats.get('failure'):
    out['failure'] = stats['failure']
  elif rc not in (0,) and 'No module named' in err and 'atheris' in err:
    out['extra']['fuzz_unavailable'] = 1     # atheris not installed: the supplementary engine is skipped
  elif rc != 0 and not stats:
    out['harness_error'] = f'fuzz child failed rc={rc}: {err[-800:]}'
  return out


def main():
  with open(sys.argv[1]) as f:
    spec = json.load(f)
  _quiet()
  out = {}
  rc = 0
  cov = None
  if os.environ.get('VERIF_COV'):
    # development aid (tools/coverage_report.sh): which lines of the library do the generated cases execute at all
    import coverage  # pylint: disable=g-import-not-at-top
    root = os.path.realpath(os.environ.get('VERIF_REPO', '/repo'))
    cov = coverage.Coverage(data_file=os.path.join(os.environ['VERIF_COV'], f'cov.{spec["prop"]}.{os.getpid()}'),
                            include=[root + '/ml_metrics/*'], omit=['*_test.py'])
    cov.start()
  try:
    from vlib import core  # pylint: disable=g-import-not-at-top
    core.assert_repo()
    mod = importlib.import_module(f'props.{spec["prop"].lower()}')
    scen = {s.name: s for s in mod.SCENARIOS}[spec['scenario']]
    if scen.setup is not None:
      scen.setup()
    if spec['mode'] == 'fuzz':
      out = run_fuzz(spec)
    elif spec['mode'] == 'single':
      out = run_single(spec, mod, scen)
    else:
      out = run_explore(spec, mod, scen)
  except BaseException as e:  # pylint: disable=broad-exception-caught
    out = {'harness_error': f'{type(e).__name__}: {e}', 'traceback': traceback.format_exc(),
           'spec': {k: v for k, v in spec.items() if k != 'case'}}
    rc = 2
  if cov is not None:
    cov.stop()
    cov.save()
  with open(spec['out'] + '.tmp', 'w') as f:
    json.dump(out, f, default=str)
  os.replace(spec['out'] + '.tmp', spec['out'])
  sys.stdout.flush()
  os._exit(rc)   # helper threads of the code under test must not keep the unit alive


if __name__ == '__main__':
  main()
