"""Core types shared by property modules and the unit executor."""
from __future__ import annotations

import dataclasses as dc
import hashlib
import json
import os
import traceback
from typing import Any, Callable


class Violation(Exception):
  """The property does not hold for the executed case."""

  def __init__(self, kind: str, msg: str = ''):
    super().__init__(f'{kind}: {msg}')
    self.kind = kind
    self.msg = msg

  def to_json(self):
    return {'kind': self.kind, 'msg': self.msg}


class Inconclusive(Exception):
  """The case could not be decided (harness budget); never a violation."""


@dc.dataclass
class Scenario:
  """One generated check.

  strategy(tier) -> hypothesis strategy producing a JSON-able case description, or
  enumerate(tier) -> iterable of case descriptions (finite domain, sharded round-robin).
  run(case) -> info dict {'nontrivial': bool, 'classes': [str,...], ...}; raises Violation.
  """
  name: str
  run: Callable[[Any], dict]
  strategy: Callable[[str], Any] | None = None
  enumerate: Callable[[str], Any] | None = None
  budget: dict = dc.field(default_factory=lambda: {'quick': 200, 'thorough': 2000})
  shards: Any = dc.field(default_factory=lambda: {'quick': 4, 'thorough': 16})
  nondeterministic: bool = False   # real OS threads: a failure is confirmed by reruns
  confirm_tries: int = 5           # reruns of a failing case of a nondeterministic scenario before it counts as inconclusive
  shrink_s: dict = dc.field(default_factory=lambda: {'quick': 45.0, 'thorough': 240.0})
  setup: Callable[[], None] | None = None
  # supplementary coverage-guided engine (atheris): decode(FuzzedDataProvider) -> case | None; runs per tier; modules to instrument
  decode: Callable[[Any], Any] | None = None
  fuzz_runs: dict = dc.field(default_factory=dict)
  instrument: tuple = ('ml_metrics',)


def canonical(case) -> str:
  return json.dumps(case, sort_keys=True, separators=(',', ':'), default=str)


def case_hash(case) -> str:
  return hashlib.blake2b(canonical(case).encode(), digest_size=8).hexdigest()


def repo_root() -> str:
  return os.path.realpath(os.environ.get('VERIF_REPO', '/repo'))


def assert_repo():
  import ml_metrics  # pylint: disable=g-import-not-at-top
  f = os.path.realpath(ml_metrics.__file__)
  if not f.startswith(repo_root() + os.sep):
    raise RuntimeError(f'ml_metrics imported from {f}, expected under {repo_root()}')


def innermost_repo_frame(exc: BaseException) -> str:
  tb = traceback.extract_tb(exc.__traceback__)
  root = repo_root()
  for fr in reversed(tb):
    if os.path.realpath(fr.filename).startswith(root):
      return f'{os.path.basename(fr.filename)}:{fr.name}'
  return 'outside-repo'


def crash(exc: BaseException, what: str = '') -> Violation:
  """Turns an unexpected exception from the code under test into a Violation bucketed by type+frame."""
  kind = f'crash:{type(exc).__name__}@{innermost_repo_frame(exc)}'
  tb = ''.join(traceback.format_exception(type(exc), exc, exc.__traceback__)[-6:])
  return Violation(kind, f'{what} raised {type(exc).__name__}: {str(exc)[:400]}\n{tb[-1500:]}')


def check(cond, kind, msg=''):
  if not cond:
    raise Violation(kind, msg() if callable(msg) else msg)


def reset_module_caches(*modules):
  """Clears every functools cache defined at module level (process-global state must not leak from case to case)."""
  for m in modules:
    for v in list(vars(m).values()):
      cc = getattr(v, 'cache_clear', None)
      if callable(cc) and getattr(v, '__module__', None) == m.__name__:
        try:
          cc()
        except Exception:  # pylint: disable=broad-exception-caught
          pass
